"""Abstract C3 programs for property C37 (C3 front end), their rendering to C3 source text, and the
program families (systematically enumerated part + seeded random part).

Abstract program (JSON-able):
  dict(id, feats, entry="f", minparen=False,
       types=[[name, ["struct", [[T, field], ...]]], ...], consts=[[T, name, e], ...],
       globals=[[T, name, init-or-None], ...], functions=[dict(name, ret, params=[[T, name], ...], body=[stmt..])])
  T    := "int" | "byte" | "bool" | "void" | "int8_t".."int64_t" | "uint8_t".."uint64_t" | typedef name
        | ["ptr", T] | ["arr", T, n]
  e    := ["lit", n>=0] (["lit", n, "x"]: written in hexadecimal) | ["bool", b] | ["var", name] | ["bin", op, e, e] (op in + - * / % << >> & | ^)
        | ["cmp", op, e, e] | ["and", e, e] | ["or", e, e] | ["not", e] | ["neg", e] | ["pos", e]
        | ["cast", T, e] | ["call", f, [e..]] | ["deref", e] | ["addr", lv] | ["field", lv, name]
        | ["index", lv, e] | ["sizeof", T]
  init := e | ["list", [init..]] (array) | ["named", [[field, init]..]] (struct)      (declarations only)
  stmt := ["decl", T, name, e|None] | ["assign", "="|"+="|"-="|"*="|"|="|"&=", lv, e] | ["if", c, [stmt..], [stmt..]|None]
        | ["while", c, [stmt..]] | ["for", stmt|None, c, stmt|None, [stmt..]] | ["switch", e, [[e|None, [stmt..]], ..]]
        | ["return", e|None] | ["callstmt", f, [e..]]
render(prog) writes every operator application in parentheses (the meaning does not depend on C3's
operator-precedence table, which the language reference does not document); programs with minparen=True
omit them exactly where C's table and the usual arithmetic conventions agree (* / % over + - over << >> over
comparisons over `and` over `or`, left-associative).
Loops are bounded by construction (dedicated counters, bounds = small literals or `(x & 3)`).
"""
import random

ARITH = ["+", "-", "*", "/", "%", "<<", ">>", "&", "|", "^"]
SAFE = ["+", "-", "*", "&", "|", "^"]
CMPS = ["==", "!=", "<", ">", "<=", ">="]
ASSIGN_OPS = ["+=", "-=", "*=", "|=", "&="]
FIXED = {"int8_t": (8, True), "int16_t": (16, True), "int32_t": (32, True), "int64_t": (64, True),
         "uint8_t": (8, False), "uint16_t": (16, False), "uint32_t": (32, False), "uint64_t": (64, False),
         "byte": (8, False)}


# ---------------------------------------------------------------------------------------------------
# rendering
def rtype(T):
    if isinstance(T, (list, tuple)):
        if T[0] == "ptr":
            return rtype(T[1]) + "*"
        if T[0] == "arr":
            return f"{rtype(T[1])}[{T[2]}]"
        if T[0] == "struct":
            return "struct { " + " ".join(f"{rtype(t)} {f};" for t, f in T[1]) + " }"
    return T


_LEVEL = {"or": 1, "and": 2, "cmp": 3, "<<": 4, ">>": 4, "+": 5, "-": 5, "*": 6, "/": 6, "%": 6}


def _lvl(e):
    if e[0] in ("or", "and", "cmp"):
        return _LEVEL[e[0]]
    if e[0] == "bin":
        return _LEVEL.get(e[1], 0)      # 0: bitwise operators, always parenthesised
    return 9


def rexpr(e, minparen=False, top=False):
    k = e[0]
    r = lambda x: rexpr(x, minparen)
    if k == "lit":
        return hex(e[1]) if len(e) > 2 and e[2] == "x" else str(e[1])
    if k == "bool":
        return "true" if e[1] else "false"
    if k == "var":
        return e[1]
    if k in ("bin", "cmp", "and", "or"):
        if k in ("bin", "cmp"):
            op, a, b = e[1], e[2], e[3]
        else:
            op, a, b = k, e[1], e[2]
        if minparen and _lvl(e) > 0:
            me = _lvl(e)

            def child(x, right):
                s = rexpr(x, True, top=True)
                lx = _lvl(x)
                if lx == 9:
                    return s
                need = lx == 0 or lx < me or (lx == me and (right or me == 3))
                return f"({s})" if need else s
            s = f"{child(a, False)} {op} {child(b, True)}"
            return s if top else f"({s})"
        return f"({r(a)} {op} {r(b)})"
    if k == "not":
        return f"(not {r(e[1])})"
    if k == "neg":
        return f"(-{r(e[1])})"
    if k == "pos":
        return f"(+{r(e[1])})"
    if k == "cast":
        return f"cast<{rtype(e[1])}>({rexpr(e[2], minparen, top=True)})"
    if k == "call":
        return f"{e[1]}(" + ", ".join(rexpr(a, minparen, top=True) for a in e[2]) + ")"
    if k == "deref":
        return f"(*{r(e[1])})"
    if k == "addr":
        return f"(&{r(e[1])})"
    if k == "field":
        if e[1][0] == "deref" and e[1][1][0] == "var":
            return f"{e[1][1][1]}->{e[2]}"
        return f"{r(e[1])}.{e[2]}"
    if k == "index":
        return f"{r(e[1])}[{rexpr(e[2], minparen, top=True)}]"
    if k == "sizeof":
        return f"sizeof({rtype(e[1])})"
    if k == "list":
        return "{" + ", ".join(rexpr(x, minparen, top=True) for x in e[1]) + "}"
    if k == "named":
        return "{" + ", ".join(f".{f} = {rexpr(x, minparen, top=True)}" for f, x in e[1]) + "}"
    raise ValueError(k)


def rlv(e, mp):
    if e[0] == "deref":
        return "*" + rexpr(e[1], mp)
    return rexpr(e, mp)


def rstmt(s, ind, mp, out):
    pad = "  " * ind
    k = s[0]
    E = lambda x: rexpr(x, mp, top=True)
    if k == "decl":
        out.append(f"{pad}var {rtype(s[1])} {s[2]}" + (f" = {E(s[3])};" if s[3] is not None else ";"))
    elif k == "assign":
        out.append(f"{pad}{rlv(s[2], mp)} {s[1]} {E(s[3])};")
    elif k == "if":
        out.append(f"{pad}if ({E(s[1])}) {{")
        rblock(s[2], ind + 1, mp, out)
        if s[3] is not None:
            out.append(f"{pad}}} else {{")
            rblock(s[3], ind + 1, mp, out)
        out.append(f"{pad}}}")
    elif k == "while":
        out.append(f"{pad}while ({E(s[1])}) {{")
        rblock(s[2], ind + 1, mp, out)
        out.append(f"{pad}}}")
    elif k == "for":
        def one(x):
            if x is None:
                return ""
            assert x[0] == "assign"
            return f"{rlv(x[2], mp)} {x[1]} {E(x[3])}"
        out.append(f"{pad}for ({one(s[1])}; {E(s[2])}; {one(s[3])}) {{")
        rblock(s[4], ind + 1, mp, out)
        out.append(f"{pad}}}")
    elif k == "switch":
        out.append(f"{pad}switch ({E(s[1])}) {{")
        for val, body in s[2]:
            out.append(f"{pad}  " + ("default: {" if val is None else f"case {E(val)}: {{"))
            rblock(body, ind + 2, mp, out)
            out.append(f"{pad}  }}")
        out.append(f"{pad}}}")
    elif k == "return":
        out.append(f"{pad}return;" if s[1] is None else f"{pad}return {E(s[1])};")
    elif k == "callstmt":
        out.append(f"{pad}{s[1]}(" + ", ".join(E(a) for a in s[2]) + ");")
    else:
        raise ValueError(k)


def rblock(stmts, ind, mp, out):
    for s in stmts:
        rstmt(s, ind, mp, out)


def render(p):
    mp = bool(p.get("minparen"))
    out = ["module m;"]
    for name, spec in p.get("types", ()):
        out.append(f"type {rtype(spec)} {name};")
    for T, name, e in p.get("consts", ()):
        out.append(f"const {rtype(T)} {name} = {rexpr(e, mp, top=True)};")
    for T, name, init in p.get("globals", ()):
        out.append(f"var {rtype(T)} {name}" + (f" = {rexpr(init, mp, top=True)};" if init is not None else ";"))
    for f in p["functions"]:
        sig = ", ".join(f"{rtype(T)} {n}" for T, n in f["params"])
        out.append(f"function {rtype(f['ret'])} {f['name']}({sig}) {{")
        rblock(f["body"], 1, mp, out)
        out.append("}")
    return "\n".join(out) + "\n"


# ---------------------------------------------------------------------------------------------------
# generator-side typing (which programs the front end accepts: used to build well-typed programs only)
def tinfo(T, ib):
    return (ib, True) if T == "int" else FIXED[T]


def tname(bits, signed, ib):
    if signed and bits == ib:
        return "int"
    if not signed and bits == 8:
        return "byte"
    return f"{'' if signed else 'u'}int{bits}_t"


def int_types(ib):
    return [tname(b, s, ib) for s in (True, False) for b in (8, 16, 32, 64)]


def implicit_ok(S, T, ib):
    (b1, s1), (b2, s2) = tinfo(S, ib), tinfo(T, ib)
    if (b1, s1) == (b2, s2):
        return True
    if s1 == s2:
        return b1 <= b2
    if not s1 and s2:
        return b1 < b2 - 1
    return True         # signed -> unsigned: accepted implicitly (any widths)


def common(A, B, ib):
    (b1, s1), (b2, s2) = tinfo(A, ib), tinfo(B, ib)
    if (b1, s1) == (b2, s2):
        return A
    C = tname(max(b1, b2), s1 or s2, ib)
    if implicit_ok(A, C, ib) and implicit_ok(B, C, ib):
        return C
    return None


# AST shorthands
def L(n):
    return ["lit", n] if n >= 0 else ["neg", ["lit", -n]]


def V(n):
    return ["var", n]


def B(op, a, b):
    return ["bin", op, a, b]


def C(op, a, b):
    return ["cmp", op, a, b]


def K(T, n):
    """constant n of exactly type T"""
    return L(n) if T == "int" else ["cast", T, L(n)]


def A(lv, e, op="="):
    return ["assign", op, lv, e]


def fn(name, ret, params, body):
    return dict(name=name, ret=ret, params=[list(p) for p in params], body=body)


def prog(pid, feats, functions, globals=(), consts=(), types=(), minparen=False):
    return dict(id=pid, feats=sorted(set(feats)), entry="f", minparen=minparen, types=[list(t) for t in types],
                consts=[list(c) for c in consts], globals=[list(g) for g in globals], functions=functions)


# ---------------------------------------------------------------------------------------------------
# enumerated families
def fam_matrix(ib):
    """every accepted ordered pair of integer operand types x every binary operator / comparison"""
    P = []
    TS = int_types(ib)
    for X in TS:
        for Y in TS:
            R = common(X, Y, ib)
            if R is None:
                continue
            tag = f"{X}.{Y}"
            mixed = ["same-type"] if X == Y else ["mixed-type"]
            a, b = V("a"), V("b")
            P.append(prog(f"m-arith-{tag}", ["matrix", "arith"] + mixed,
                          [fn("f", R, [(X, "a"), (Y, "b")],
                              [A(V(f"r{k}"), B(op, a, b)) for k, op in enumerate(SAFE[:5])] + [["return", B(SAFE[5], a, b)]])],
                          globals=[(R, f"r{k}", None) for k in range(5)]))
            P.append(prog(f"m-div-{tag}", ["matrix", "div", "mod"] + mixed,
                          [fn("f", R, [(X, "a"), (Y, "b")], [A(V("r0"), B("/", a, b)), ["return", B("%", a, b)]])],
                          globals=[(R, "r0", None)]))
            P.append(prog(f"m-shift-{tag}", ["matrix", "shift"] + mixed,
                          [fn("f", R, [(X, "a"), (Y, "b")], [A(V("r0"), B("<<", a, b)), ["return", B(">>", a, b)]])],
                          globals=[(R, "r0", None)]))
            P.append(prog(f"m-cmp-{tag}", ["matrix", "cmp"] + mixed,
                          [fn("f", "bool", [(X, "a"), (Y, "b")],
                              [A(V(f"c{k}"), C(op, a, b)) for k, op in enumerate(CMPS[:5])] + [["return", C(CMPS[5], a, b)]])],
                          globals=[("bool", f"c{k}", None) for k in range(5)]))
    return P


def fam_convert(ib):
    P = []
    TS = int_types(ib)
    for S in TS:
        # explicit casts to every type; implicit conversions wherever the language accepts them
        P.append(prog(f"cast-{S}", ["cast"],
                      [fn("f", "int", [(S, "a")], [A(V(f"g{k}"), ["cast", T, V("a")]) for k, T in enumerate(TS)] +
                          [["return", ["cast", "int", ["cast", "byte", V("a")]]]])],
                      globals=[(T, f"g{k}", None) for k, T in enumerate(TS)]))
        imp = [T for T in TS if implicit_ok(S, T, ib)]
        P.append(prog(f"implicit-{S}", ["implicit-conversion"],
                      [fn("h", imp[-1], [(imp[0], "x")], [["return", V("x")]]),
                       fn("f", imp[-1], [(S, "a")], [A(V(f"g{k}"), V("a")) for k, T in enumerate(imp)] +
                          [["decl", T, f"l{k}", V("a")] for k, T in enumerate(imp)] +
                          [A(V(f"g{k}"), V(f"l{k}")) for k, T in enumerate(imp)] +
                          [["return", ["call", "h", [V("a")]]]])],
                      globals=[(T, f"g{k}", None) for k, T in enumerate(imp)]))
        # unary operators and operators with literal operands (literals are int)
        body = [A(V("r0"), ["neg", V("a")]), A(V("r1"), ["pos", V("a")]), A(V("r2"), ["neg", ["neg", V("a")]])]
        P.append(prog(f"unary-{S}", ["unary"], [fn("f", S, [(S, "a")], body + [["return", B("-", K(S, 0), V("a"))]])],
                      globals=[(S, f"r{k}", None) for k in range(3)]))
        R = common(S, "int", ib)
        if R is not None:
            lits = [("+", 1), ("-", 1), ("*", 3), ("/", 2), ("%", 3), ("/", -2), ("%", -3), ("*", -1), ("<<", 1), (">>", 1),
                    (">>", 7), ("&", 255), ("|", 256), ("^", 32767), ("+", 32767), ("-", 255)]
            P.append(prog(f"lit-{S}", ["literal-operand", "div", "mod", "shift"],
                          [fn("f", R, [(S, "a")], [A(V(f"r{k}"), B(op, V("a"), L(n))) for k, (op, n) in enumerate(lits)] +
                              [["return", B("-", L(100), V("a"))]])],
                          globals=[(R, f"r{k}", None) for k in range(len(lits))]))
            # power-of-two and unit literal operands (what a strength reduction would rewrite; seed C37/D)
            lits2 = [("%", 8), ("%", 2), ("%", 1), ("%", 256), ("/", 4), ("/", 1), ("/", 128), ("*", 8), ("*", 1), ("*", 0),
                     ("<<", 0), (">>", 0), ("&", 0), ("&", -1), ("|", 0), ("^", -1), ("%", -8), ("/", -4)]
            P.append(prog(f"lit2-{S}", ["literal-operand", "div", "mod", "shift"],
                          [fn("f", R, [(S, "a")], [A(V(f"r{k}"), B(op, V("a"), L(n))) for k, (op, n) in enumerate(lits2)] +
                              [["return", B("%", L(1000), B("|", V("a"), L(1)))]])],
                          globals=[(R, f"r{k}", None) for k in range(len(lits2))]))
            # comparisons with literals in and out of the range of S, literal on either side (seed C37/C)
            cl = [300, 256, 255, 0, -1, 128, 127, -128, -129, 511, 65535, 65536, 32768, -32769, 70000]
            stm = []
            for k, n in enumerate(cl):
                op = CMPS[k % len(CMPS)]
                stm.append(A(V(f"c{2 * k}"), C(op, V("a"), L(n))))
                stm.append(A(V(f"c{2 * k + 1}"), C(CMPS[(k + 3) % len(CMPS)], L(n), V("a"))))
            P.append(prog(f"litcmp-{S}", ["literal-operand", "cmp"],
                          [fn("f", "bool", [(S, "a")], stm + [["return", C("==", V("a"), L(256))]])],
                          globals=[("bool", f"c{k}", None) for k in range(2 * len(cl))]))
        # compound assignment: lvalue of type S, right-hand sides of every implicitly convertible type
        srcs = [T for T in TS if implicit_ok(T, S, ib)]
        for op in ASSIGN_OPS:
            P.append(prog(f"opassign-{S}-{op[:-1].replace('+','add').replace('-','sub').replace('*','mul').replace('|','or').replace('&','and')}",
                          ["compound-assign"],
                          [fn("f", S, [(S, "a")] + [(T, f"b{k}") for k, T in enumerate(srcs)],
                              [["decl", S, "x", V("a")]] + [A(V("x"), V(f"b{k}"), op) for k in range(len(srcs))] +
                              [A(V("g"), V("x")), A(V("g"), K(S, 77), op), ["return", V("g")]])],
                          globals=[(S, "g", None)]))
    return P


def _tick_fn():
    # records order and number of evaluations in global `trace`
    return fn("t", "bool", [("int", "k"), ("int", "v")],
              [A(V("trace"), B("+", B("*", V("trace"), L(5)), V("k"))), ["return", C(">", V("v"), L(0))]])


def fam_logic(ib):
    P = []
    T1 = ["call", "t", [L(1), V("a")]]
    T2 = ["call", "t", [L(2), V("b")]]
    T3 = ["call", "t", [L(3), V("c")]]
    shapes = {
        "and": ["and", T1, T2], "or": ["or", T1, T2], "not": ["not", T1],
        "and-and": ["and", ["and", T1, T2], T3], "or-or": ["or", ["or", T1, T2], T3],
        "and-or": ["or", ["and", T1, T2], T3], "or-and": ["and", ["or", T1, T2], T3],
        "and_or": ["and", T1, ["or", T2, T3]], "or_and": ["or", T1, ["and", T2, T3]],
        "not-and": ["not", ["and", T1, T2]], "not-or": ["not", ["or", T1, T2]],
        "nand-or": ["or", ["not", T1], ["and", T2, ["not", T3]]],
        "not-not": ["not", ["not", ["or", T1, T3]]],
        "cmp-and": ["and", C("<", V("a"), V("b")), ["or", C("==", V("b"), V("c")), T1]],
        "lit-true-and": ["and", ["bool", True], T2], "lit-false-or": ["or", ["bool", False], T2],
        "lit-and-false": ["and", T1, ["bool", False]], "lit-or-true": ["or", T1, ["bool", True]],
        "booleq": C("==", ["and", T1, T2], ["or", T2, T3]),
        "boolne": C("!=", T1, ["not", T2]),
    }
    params = [("int", "a"), ("int", "b"), ("int", "c")]
    glob = [("int", "trace", None)]
    for name, c in shapes.items():
        P.append(prog(f"logic-if-{name}", ["logic", "if"],
                      [_tick_fn(), fn("f", "int", params, [A(V("trace"), L(0)), ["if", c, [["return", B("+", V("trace"), L(1000))]], None],
                                                           ["return", V("trace")]])], globals=glob))
        P.append(prog(f"logic-val-{name}", ["logic", "bool-value"],
                      [_tick_fn(), fn("f", "bool", params, [A(V("trace"), L(0)), ["decl", "bool", "r", c], A(V("gb"), V("r")),
                                                            ["return", ["not", V("r")]]])],
                      globals=glob + [("bool", "gb", None)]))
    for name in ("and", "or-and", "nand-or"):
        c = shapes[name]
        P.append(prog(f"logic-while-{name}", ["logic", "while"],
                      [_tick_fn(), fn("f", "int", params,
                                      [A(V("trace"), L(0)), ["decl", "int", "n", L(0)],
                                       ["while", ["and", C("<", V("n"), L(2)), c], [A(V("n"), L(1), "+="), A(V("a"), L(1), "-=")]],
                                       ["return", B("+", V("trace"), V("n"))]])], globals=glob))
        P.append(prog(f"logic-ret-{name}", ["logic", "bool-value"],
                      [_tick_fn(), fn("f", "bool", params, [A(V("trace"), L(0)), ["return", c]])], globals=glob))
    # bool variables, parameters, globals
    P.append(prog("bool-param", ["logic", "bool-value"],
                  [fn("f", "bool", [("bool", "p"), ("bool", "q"), ("int", "a")],
                      [["decl", "bool", "r", ["and", V("p"), ["not", V("q")]]],
                       ["if", V("gb"), [A(V("r"), ["or", V("r"), C("<", V("a"), L(0))])], [A(V("gb"), V("q"))]],
                       ["return", C("==", V("r"), V("p"))]])], globals=[("bool", "gb", None)]))
    P.append(prog("bool-call", ["logic", "call"],
                  [fn("even", "bool", [("int", "x")], [["return", C("==", B("&", V("x"), L(1)), L(0))]]),
                   fn("f", "int", [("int", "a"), ("int", "b")],
                      [["if", ["and", ["call", "even", [V("a")]], ["not", ["call", "even", [V("b")]]]], [["return", L(1)]], None],
                       ["if", ["call", "even", [B("+", V("a"), V("b"))]], [["return", L(2)]], [["return", L(3)]]]])]))
    return P


def fam_control(ib):
    P = []
    pa = [("int", "a"), ("int", "b")]
    a, b, s, i, j = V("a"), V("b"), V("s"), V("i"), V("j")
    n3 = B("&", a, L(3))

    def add(name, feats, body, **kw):
        P.append(prog(f"ctl-{name}", ["control"] + feats, kw.pop("funcs", []) + [fn("f", "int", pa, body)], **kw))

    add("if", ["if"], [["if", C("<", a, b), [["return", a]], None], ["return", b]])
    add("if-else", ["if"], [["decl", "int", "s", L(0)], ["if", C("<", a, b), [A(s, a)], [A(s, b)]], ["return", B("*", s, L(2))]])
    add("if-chain", ["if"], [["decl", "int", "s", L(0)],
                             ["if", C("<", a, L(0)), [A(s, L(1))], [["if", C("==", a, L(0)), [A(s, L(2))], [["if", C("<", a, b), [A(s, L(3))], [A(s, L(4))]]]]]],
                             ["return", B("+", s, a)]])
    add("if-nested", ["if"], [["decl", "int", "s", a],
                              ["if", C(">", a, b), [A(s, b, "-="), ["if", C(">", s, L(10)), [A(s, L(10))], None]], None], ["return", s]])
    add("if-both-return", ["if"], [["if", C(">=", a, b), [["return", B("-", a, b)]], [["return", B("-", b, a)]]]])
    add("if-empty", ["if"], [["if", C(">=", a, b), [], [A(a, b)]], ["return", a]])
    add("while-count", ["while"], [["decl", "int", "s", L(0)], ["decl", "int", "i", L(0)],
                                   ["while", C("<", i, n3), [A(s, B("+", b, i), "+="), A(i, L(1), "+=")]], ["return", s]])
    add("while-down", ["while"], [["decl", "int", "s", L(1)], ["decl", "int", "n", n3],
                                  ["while", C(">", V("n"), L(0)), [A(s, b, "*="), A(V("n"), L(1), "-=")]], ["return", s]])
    add("while-return", ["while", "early-return"], [["decl", "int", "i", L(0)],
                                                    ["while", C("<", i, L(3)), [["if", C("==", B("+", a, i), b), [["return", i]], None], A(i, L(1), "+=")]],
                                                    ["return", L(0 - 1)]])
    add("while-never", ["while"], [["while", ["bool", False], [A(a, L(1), "+=")]], ["return", a]])
    add("while-true-return", ["while", "early-return"], [["decl", "int", "i", L(0)],
                                                         ["while", ["bool", True], [["if", C(">=", i, n3), [["return", B("+", i, b)]], None], A(i, L(1), "+=")]],
                                                         ["return", L(7)]])
    add("while-and", ["while", "logic"], [["decl", "int", "i", L(0)],
                                          ["while", ["and", C("<", i, L(3)), C("!=", B("+", a, i), b)], [A(i, L(1), "+=")]], ["return", i]])
    add("for-sum", ["for"], [["decl", "int", "s", L(0)], ["decl", "int", "i", L(0)],
                             ["for", A(i, L(0)), C("<", i, n3), A(i, L(1), "+="), [A(s, B("*", i, b), "+=")]], ["return", s]])
    add("for-down", ["for"], [["decl", "int", "s", L(0)], ["decl", "int", "i", L(0)],
                              ["for", A(i, n3), C(">", i, L(0)), A(i, L(1), "-="), [A(s, i, "+=")]], ["return", B("+", s, i)]])
    add("for-step2", ["for"], [["decl", "int", "s", b], ["decl", "int", "i", L(0)],
                               ["for", A(i, L(0)), C("<=", i, L(4)), A(i, L(2), "+="), [A(s, B("^", s, i))]], ["return", s]])
    add("for-nested", ["for"], [["decl", "int", "s", L(0)], ["decl", "int", "i", L(0)], ["decl", "int", "j", L(0)],
                                ["for", A(i, L(0)), C("<", i, B("&", a, L(1))), A(i, L(1), "+="),
                                 [["for", A(j, i), C("<", j, L(2)), A(j, L(1), "+="), [A(s, B("+", B("*", i, L(10)), j), "+=")]]]],
                                ["return", B("+", s, b)]])
    add("for-while", ["for", "while"], [["decl", "int", "s", L(0)], ["decl", "int", "i", L(0)], ["decl", "int", "n", L(0)],
                                        ["for", A(i, L(0)), C("<", i, L(2)), A(i, L(1), "+="),
                                         [A(V("n"), B("&", b, L(1))), ["while", C(">", V("n"), L(0)), [A(s, a, "+="), A(V("n"), L(1), "-=")]]]],
                                        ["return", s]])
    add("for-return", ["for", "early-return"], [["decl", "int", "i", L(0)],
                                                ["for", A(i, L(0)), C("<", i, L(3)), A(i, L(1), "+="), [["if", C("<", B("*", a, i), b), [["return", i]], None]]],
                                                ["return", L(9)]])
    sw = lambda opts: ["switch", a, opts]
    add("switch", ["switch"], [["decl", "int", "s", L(0)],
                               sw([[L(0), [A(s, L(10))]], [L(1), [A(s, b)]], [L(5), [A(s, B("+", b, L(1)))]], [None, [A(s, L(0 - 1))]]]), ["return", s]])
    add("switch-default-first", ["switch"], [["decl", "int", "s", L(0)],
                                             sw([[None, [A(s, L(3))]], [L(2), [A(s, L(20))]], [L(3), [A(s, L(30))]]]), ["return", s]])
    add("switch-default-mid", ["switch"], [["decl", "int", "s", L(0)],
                                           sw([[L(7), [A(s, L(70))]], [None, [A(s, b)]], [L(8), [A(s, L(80))]]]), ["return", B("+", s, L(1))]])
    add("switch-only-default", ["switch"], [sw([[None, [A(a, L(1), "+=")]]]), ["return", a]])
    add("switch-return", ["switch", "early-return"], [sw([[L(1), [["return", b]]], [L(2), [["if", C("<", b, L(0)), [["return", L(0)]], None]]],
                                                          [None, []]]), ["return", B("-", a, b)]])
    add("switch-expr", ["switch"], [["decl", "int", "s", L(0)],
                                    ["switch", B("&", B("+", a, b), L(3)), [[L(0), [A(s, L(1))]], [L(1), [A(s, L(2))]], [L(2), [A(s, L(4))]], [None, [A(s, L(8))]]]],
                                    ["return", s]])
    add("switch-no-fallthrough", ["switch"], [["decl", "int", "s", L(0)],
                                              sw([[L(1), [A(s, L(1), "+=")]], [L(2), [A(s, L(2), "+=")]], [None, [A(s, L(4), "+=")]]]),
                                              sw([[L(2), [A(s, L(8), "+=")]], [None, [A(s, L(16), "+=")]]]), ["return", s]])
    add("switch-const-case", ["switch", "const"], [["decl", "int", "s", L(0)],
                                                   sw([[V("K1"), [A(s, L(1))]], [B("+", V("K1"), L(1)), [A(s, L(2))]], [B("-", L(0), L(1)), [A(s, L(3))]], [None, [A(s, L(4))]]]),
                                                   ["return", s]], consts=[("int", "K1", L(4))])
    add("switch-in-loop", ["switch", "for"], [["decl", "int", "s", L(0)], ["decl", "int", "i", L(0)],
                                              ["for", A(i, L(0)), C("<", i, L(3)), A(i, L(1), "+="),
                                               [["switch", B("&", B("+", a, i), L(1)), [[L(0), [A(s, b, "+=")]], [None, [A(s, i, "-=")]]]]]],
                                              ["return", s]])
    add("switch-nested", ["switch"], [["decl", "int", "s", L(0)],
                                      sw([[L(0), [["switch", b, [[L(0), [A(s, L(1))]], [None, [A(s, L(2))]]]]]], [None, [A(s, L(3))]]]), ["return", s]])
    add("locals-many", ["locals"], [["decl", "int", "x", a], ["decl", "int", "y", B("+", V("x"), b)], ["decl", "int", "z", B("*", V("y"), V("x"))],
                                    A(V("x"), V("z")), A(V("y"), V("x"), "-="), ["return", B("^", V("y"), V("z"))]])
    add("decl-in-branch", ["locals", "if"], [["decl", "int", "r", L(0)],
                                             ["if", C("<", a, b), [["decl", "int", "t", B("+", a, L(1))], A(V("r"), V("t"))], [["decl", "int", "u", B("-", b, L(1))], A(V("r"), V("u"))]],
                                             ["return", V("r")]])
    add("decl-in-loop", ["locals", "for"], [["decl", "int", "s", L(0)], ["decl", "int", "i", L(0)],
                                            ["for", A(i, L(0)), C("<", i, L(2)), A(i, L(1), "+="), [["decl", "int", "t", B("+", a, i)], A(s, V("t"), "+=")]],
                                            ["return", s]])
    add("shadow-global", ["locals", "global"], [["decl", "int", "g", B("+", a, L(1))], A(V("g"), b, "*="), ["callstmt", "setg", [V("g")]], ["return", B("-", V("g"), ["call", "getg", []])]],
        globals=[("int", "g", None)], funcs=[fn("setg", "void", [("int", "v")], [A(V("g"), B("+", V("g"), V("v")))]), fn("getg", "int", [], [["return", V("g")]])])
    add("hex-literals", ["literal"], [["return", B("+", B("&", a, ["lit", 255, "x"]), B("^", B("|", b, ["lit", 4096, "x"]), ["lit", 32767, "x"]))]])
    add("param-assign", ["locals"], [A(a, B("+", a, b)), A(b, a, "*="), ["return", b]])
    add("multi-decl-types", ["locals", "mixed-type"],
        [["decl", "byte", "x", a], ["decl", "int64_t", "w", b], ["decl", "uint16_t" if ib == 32 else "uint32_t", "h", a],
         A(V("w"), V("x"), "+="), A(V("w"), V("h"), "*="), ["return", ["cast", "int", V("w")]]])
    return P


def fam_calls(ib):
    P = []
    a, b = V("a"), V("b")
    pa = [("int", "a"), ("int", "b")]

    def add(name, feats, funcs, **kw):
        P.append(prog(f"call-{name}", ["call"] + feats, funcs, **kw))

    add("simple", [], [fn("g", "int", [("int", "x"), ("int", "y")], [["return", B("-", V("x"), V("y"))]]),
                       fn("f", "int", pa, [["return", B("+", ["call", "g", [a, b]], ["call", "g", [b, a]])]])])
    add("nested", [], [fn("g", "int", [("int", "x"), ("int", "y")], [["return", B("-", B("*", V("x"), L(2)), V("y"))]]),
                       fn("f", "int", pa, [["return", ["call", "g", [["call", "g", [a, b]], ["call", "g", [b, L(3)]]]]]])])
    add("order-defined-later", [], [fn("f", "int", pa, [["return", ["call", "g", [a]]]]),
                                    fn("g", "int", [("int", "x")], [["return", B("+", V("x"), L(1))]])])
    add("arg-conversions", ["implicit-conversion"],
        [fn("g", "int64_t", [("int64_t", "x"), ("byte", "y")], [["return", B("+", V("x"), V("y"))]]),
         fn("f", "int64_t", [("int", "a"), ("byte", "b"), ("int8_t", "c")],
            [["return", B("+", ["call", "g", [a, b]], ["call", "g", [V("c"), a]])]])])
    add("ret-conversion", ["implicit-conversion"],
        [fn("g", "byte", [("int", "x")], [["return", V("x")]]),
         fn("h", "int64_t", [("int8_t", "x")], [["return", V("x")]]),
         fn("f", "int64_t", [("int", "a"), ("int8_t", "b")], [["return", B("+", ["call", "h", [V("b")]], ["call", "g", [a]])]])])
    add("void-global", ["global"], [fn("bump", "void", [("int", "d")], [A(V("g"), V("d"), "+="), ["if", C(">", V("g"), L(100)), [A(V("g"), L(0)), ["return", None]], None],
                                                                        A(V("g"), L(1), "+=")]),
                                    fn("f", "int", pa, [["callstmt", "bump", [a]], ["callstmt", "bump", [b]], ["return", V("g")]])],
        globals=[("int", "g", None)])
    add("side-effect-rhs", ["global"], [fn("nxt", "int", [], [A(V("g"), L(1), "+="), ["return", V("g")]]),
                                        fn("f", "int", pa, [["decl", "int", "x", ["call", "nxt", []]], ["decl", "int", "y", ["call", "nxt", []]],
                                                            ["return", B("-", B("*", V("x"), a), B("*", V("y"), b))]])],
        globals=[("int", "g", None)])
    add("recursion", ["recursion"], [fn("fact", "int", [("int", "n")], [["if", C("<=", V("n"), L(1)), [["return", L(1)]], None],
                                                                      ["return", B("*", V("n"), ["call", "fact", [B("-", V("n"), L(1))]])]]),
                                     fn("f", "int", pa, [["return", B("+", ["call", "fact", [B("&", a, L(3))]], b)]])])
    add("mutual", ["recursion"], [fn("ev", "bool", [("int", "n")], [["if", C("==", V("n"), L(0)), [["return", ["bool", True]]], None],
                                                                  ["return", ["call", "od", [B("-", V("n"), L(1))]]]]),
                                  fn("od", "bool", [("int", "n")], [["if", C("==", V("n"), L(0)), [["return", ["bool", False]]], None],
                                                                  ["return", ["call", "ev", [B("-", V("n"), L(1))]]]]),
                                  fn("f", "int", pa, [["if", ["call", "ev", [B("&", a, L(3))]], [["return", b]], None], ["return", L(0)]])])
    add("ptr-param", ["pointer"], [fn("inc", "void", [(["ptr", "int"], "p"), ("int", "d")], [A(["deref", V("p")], V("d"), "+=")]),
                                   fn("f", "int", pa, [["decl", "int", "x", a], ["callstmt", "inc", [["addr", V("x")], b]],
                                                       ["callstmt", "inc", [["addr", V("x")], L(1)]], ["return", V("x")]])])
    add("ptr-swap", ["pointer"], [fn("swap", "void", [(["ptr", "int"], "p"), (["ptr", "int"], "q")],
                                     [["decl", "int", "t", ["deref", V("p")]], A(["deref", V("p")], ["deref", V("q")]), A(["deref", V("q")], V("t"))]),
                                  fn("f", "int", pa, [["callstmt", "swap", [["addr", a], ["addr", b]]], ["return", B("-", a, b)]])])
    add("ptr-global", ["pointer", "global"], [fn("setg", "void", [(["ptr", "byte"], "p"), ("int", "v")], [A(["deref", V("p")], V("v"))]),
                                              fn("f", "int", pa, [["callstmt", "setg", [["addr", V("gb")], a]], ["return", B("+", V("gb"), b)]])],
        globals=[("byte", "gb", None)])
    add("in-condition", ["if"], [fn("sq", "int", [("int", "x")], [["return", B("*", V("x"), V("x"))]]),
                                 fn("f", "int", pa, [["if", C("<", ["call", "sq", [a]], ["call", "sq", [b]]), [["return", L(1)]], None], ["return", L(2)]])])
    add("in-loop", ["for"], [fn("step", "int", [("int", "x"), ("int", "k")], [["if", C("==", B("&", V("k"), L(1)), L(0)), [["return", B("+", V("x"), V("k"))]], None],
                                                                             ["return", B("-", V("x"), V("k"))]]),
                             fn("f", "int", pa, [["decl", "int", "i", L(0)], ["for", A(V("i"), L(0)), C("<", V("i"), B("&", b, L(3))), A(V("i"), L(1), "+="),
                                                                                [A(a, ["call", "step", [a, V("i")]])]], ["return", a]])])
    return P


def fam_memory(ib):
    P = []
    a, b = V("a"), V("b")
    pa = [("int", "a"), ("int", "b")]
    S = ["struct", [["int", "x"], ["byte", "y"], ["int64_t", "z"], ["byte", "w"]]]

    def add(name, feats, body, **kw):
        funcs = kw.pop("funcs", [])
        P.append(prog(f"mem-{name}", ["memory"] + feats, funcs + [fn("f", kw.pop("ret", "int"), kw.pop("params", pa), body)], **kw))

    add("ptr-local", ["pointer"], [["decl", "int", "x", a], ["decl", ["ptr", "int"], "p", ["addr", V("x")]], A(["deref", V("p")], b, "+="),
                                   ["return", B("+", V("x"), ["deref", V("p")])]])
    add("ptr-retarget", ["pointer", "if"], [["decl", "int", "x", L(1)], ["decl", "int", "y", L(2)], ["decl", ["ptr", "int"], "p", ["addr", V("x")]],
                                            ["if", C("<", a, b), [A(V("p"), ["addr", V("y")])], None], A(["deref", V("p")], a),
                                            ["return", B("+", B("*", V("x"), L(100)), V("y"))]])
    add("ptr-ptr", ["pointer"], [["decl", "int", "x", a], ["decl", ["ptr", "int"], "p", ["addr", V("x")]],
                                 ["decl", ["ptr", ["ptr", "int"]], "pp", ["addr", V("p")]], A(["deref", ["deref", V("pp")]], b, "-="), ["return", V("x")]])
    add("ptr-byte", ["pointer", "mixed-type"], [["decl", "byte", "x", a], ["decl", ["ptr", "byte"], "p", ["addr", V("x")]],
                                                A(["deref", V("p")], b, "+="), A(["deref", V("p")], L(3), "*="), ["return", V("x")]])
    add("ptr-global", ["pointer", "global"], [["decl", ["ptr", "int"], "p", ["addr", V("g")]], A(["deref", V("p")], B("+", V("g"), a)),
                                              A(V("g"), b, "|="), ["return", ["deref", V("p")]]],
        globals=[("int", "g", None)])
    add("ptr-param-of-param", ["pointer"], [["decl", ["ptr", "int"], "p", ["addr", a]], A(["deref", V("p")], L(5), "*="), ["return", B("+", a, b)]])
    add("struct-local", ["struct"], [["decl", "S", "s", None], A(["field", V("s"), "x"], a), A(["field", V("s"), "y"], b), A(["field", V("s"), "z"], B("*", a, b)),
                                     A(["field", V("s"), "w"], L(200)), A(["field", V("s"), "y"], ["field", V("s"), "w"], "+="),
                                     ["return", B("+", B("+", ["field", V("s"), "x"], ["field", V("s"), "y"]), ["cast", "int", ["field", V("s"), "z"]])]],
        types=[("S", S)])
    add("struct-ptr", ["struct", "pointer"], [["decl", "S", "s", None], ["decl", ["ptr", "S"], "p", ["addr", V("s")]],
                                              A(["field", ["deref", V("p")], "x"], a), A(["field", ["deref", V("p")], "w"], b),
                                              A(["field", V("s"), "x"], L(1), "+="), ["return", B("+", ["field", ["deref", V("p")], "x"], ["field", V("s"), "w"])]],
        types=[("S", S)])
    add("struct-field-ptr", ["struct", "pointer"], [["decl", "S", "s", None], A(["field", V("s"), "y"], a), A(["field", V("s"), "w"], b),
                                                    ["decl", ["ptr", "byte"], "p", ["addr", ["field", V("s"), "w"]]], A(["deref", V("p")], L(1), "+="),
                                                    ["return", B("+", B("*", ["field", V("s"), "y"], L(256)), ["field", V("s"), "w"])]],
        types=[("S", S)])
    add("struct-param-ptr", ["struct", "pointer", "call"],
        [["decl", "S", "s", None], A(["field", V("s"), "x"], a), A(["field", V("s"), "z"], b), ["callstmt", "upd", [["addr", V("s")]]],
         ["return", B("+", ["field", V("s"), "x"], ["cast", "int", ["field", V("s"), "z"]])]],
        types=[("S", S)], funcs=[fn("upd", "void", [(["ptr", "S"], "p")], [A(["field", ["deref", V("p")], "z"], ["field", ["deref", V("p")], "x"], "+="),
                                                                        A(["field", ["deref", V("p")], "x"], L(0))])])
    add("struct-nested", ["struct"], [["decl", "O", "o", None], A(["field", ["field", V("o"), "in"], "q"], a), A(["field", V("o"), "k"], b),
                                      A(["field", ["field", V("o"), "in"], "r"], L(9)),
                                      ["return", B("-", ["field", ["field", V("o"), "in"], "q"], B("+", ["field", V("o"), "k"], ["field", ["field", V("o"), "in"], "r"]))]],
        types=[("I", ["struct", [["byte", "r"], ["int", "q"]]]), ("O", ["struct", [["byte", "k"], ["I", "in"]]])])
    add("array-const-index", ["array"], [["decl", ["arr", "int", 3], "v", None], A(["index", V("v"), L(0)], a), A(["index", V("v"), L(1)], b),
                                         A(["index", V("v"), L(2)], B("+", ["index", V("v"), L(0)], ["index", V("v"), L(1)])),
                                         A(["index", V("v"), L(1)], L(2), "*="), ["return", B("-", ["index", V("v"), L(2)], ["index", V("v"), L(1)])]])
    add("array-sym-read", ["array", "symbolic-index"], [["decl", ["arr", "int", 4], "v", None], A(["index", V("v"), L(0)], a), A(["index", V("v"), L(1)], b),
                                                        A(["index", V("v"), L(2)], L(7)), A(["index", V("v"), L(3)], B("-", a, b)),
                                                        ["return", ["index", V("v"), B("&", a, L(3))]]])
    add("array-sym-write", ["array", "symbolic-index"], [["decl", ["arr", "byte", 4], "v", None]] + [A(["index", V("v"), L(k)], L(k)) for k in range(4)] +
        [A(["index", V("v"), B("&", a, L(3))], b), A(["index", V("v"), B("&", b, L(3))], L(1), "+="),
         ["return", B("+", B("+", ["index", V("v"), L(0)], B("*", ["index", V("v"), L(1)], L(2))), B("+", ["index", V("v"), L(2)], ["index", V("v"), L(3)]))]])
    add("array-loop", ["array", "for"], [["decl", ["arr", "int", 3], "v", None], ["decl", "int", "i", L(0)], ["decl", "int", "s", L(0)],
                                         ["for", A(V("i"), L(0)), C("<", V("i"), L(3)), A(V("i"), L(1), "+="), [A(["index", V("v"), V("i")], B("+", a, V("i")))]],
                                         ["for", A(V("i"), L(0)), C("<", V("i"), L(3)), A(V("i"), L(1), "+="), [A(V("s"), B("*", ["index", V("v"), V("i")], b), "+=")]],
                                         ["return", V("s")]])
    add("array-global", ["array", "global", "symbolic-index"], [A(["index", V("ga"), L(1)], a), A(["index", V("ga"), B("&", b, L(1))], L(5), "+="),
                                                                ["return", B("+", ["index", V("ga"), L(0)], ["index", V("ga"), L(2)])]],
        globals=[(["arr", "int", 3], "ga", None)])
    add("array-global-bytes", ["array", "global"], [A(["index", V("gb"), L(0)], a), A(["index", V("gb"), L(3)], B("+", ["index", V("gb"), L(1)], ["index", V("gb"), L(2)])),
                                                    ["return", ["index", V("gb"), L(3)]]],
        globals=[(["arr", "byte", 4], "gb", None)])
    add("array-index-unchecked", ["array", "symbolic-index"], [["decl", ["arr", "int", 2], "v", None], A(["index", V("v"), L(0)], a), A(["index", V("v"), L(1)], b),
                                                               ["return", ["index", V("v"), a]]])
    add("array-elem-ptr", ["array", "pointer"], [["decl", ["arr", "int", 2], "v", None], A(["index", V("v"), L(0)], a), A(["index", V("v"), L(1)], b),
                                                 ["decl", ["ptr", "int"], "p", ["addr", ["index", V("v"), L(1)]]], A(["deref", V("p")], L(2), "*="),
                                                 ["return", B("+", ["index", V("v"), L(0)], ["index", V("v"), L(1)])]])
    add("globals-mixed", ["global", "mixed-type"], [A(V("g8"), B("+", V("g8"), a)), A(V("g64"), V("g8"), "+="), A(V("gi"), B("-", V("gi"), V("g8"))),
                                                    A(V("gu"), V("g8"), "*="), ["return", B("+", V("gi"), ["cast", "int", V("g64")])]],
        globals=[("byte", "g8", None), ("int64_t", "g64", None), ("int", "gi", None), ("uint64_t", "gu", None)])
    add("array-local-init", ["array", "initialiser"], [["decl", ["arr", "int", 3], "v", ["list", [a, B("+", a, b), L(7)]]],
                                                       ["decl", ["arr", "byte", 2], "w", ["list", [b, L(300)]]],
                                                       ["return", B("+", B("*", ["index", V("v"), L(1)], ["index", V("w"), L(1)]), B("-", ["index", V("v"), L(2)], ["index", V("w"), L(0)]))]])
    add("array-global-init", ["array", "global", "initialiser"], [A(["index", V("ga"), L(0)], ["index", V("gb"), L(3)], "+="), A(["index", V("gb"), L(1)], a),
                                                                  ["return", B("+", ["index", V("ga"), L(2)], ["index", V("ga"), B("&", b, L(1))])]],
        globals=[(["arr", "int", 3], "ga", ["list", [L(10), L(20), B("*", L(6), L(5))]]), (["arr", "byte", 4], "gb", ["list", [L(1), L(2), L(255), L(256 + 4)]])])
    add("struct-global-init", ["struct", "global", "initialiser"], [A(["field", V("gs"), "x"], a, "+="), A(["field", V("gs"), "w"], ["field", V("gs"), "y"], "+="),
                                                                    ["return", B("+", B("+", ["field", V("gs"), "x"], ["field", V("gs"), "w"]), ["field", V("gs"), "z"])]],
        types=[("S2", ["struct", [["int", "x"], ["byte", "y"], ["int", "z"], ["byte", "w"]]])],
        globals=[("S2", "gs", ["named", [["x", L(1000)], ["y", L(200)], ["z", B("-", L(3), L(10))], ["w", L(100)]]])])
    add("struct-global", ["struct", "global"], [A(["field", V("gt"), "x"], a), A(["field", V("gt"), "z"], b), A(["field", V("gt"), "y"], B("+", a, L(1))), A(["field", V("gt"), "x"], ["field", V("gt"), "y"], "+="),
                                                ["return", B("+", ["field", V("gt"), "x"], ["cast", "int", ["field", V("gt"), "z"]])]],
        types=[("S", S)], globals=[("S", "gt", None)])
    add("alias-type-names", ["mixed-type"], [["decl", f"int{ib}_t", "x", B("+", a, V("c"))], ["decl", "uint8_t", "y", B("+", V("d"), V("e"))],
                                             A(V("g"), B("*", V("x"), V("y"))), ["return", B("-", V("x"), a)]],
        params=[("int", "a"), ("int", "b"), (f"int{ib}_t", "c"), ("byte", "d"), ("uint8_t", "e")], globals=[(f"int{ib}_t", "g", None)])
    add("sizeof", ["sizeof"], [["return", B("+", B("+", B("*", ["sizeof", "int"], L(1000)), B("*", ["sizeof", "int64_t"], L(100))),
                                          B("+", B("*", ["sizeof", "byte"], L(10)), ["sizeof", "uint16_t"]))]])
    return P


def fam_const(ib):
    P = []
    a = V("a")

    def add(name, consts=(), globals=(), body=None, feats=()):
        P.append(prog(f"const-{name}", ["const"] + list(feats), [fn("f", "int", [("int", "a")], body)], consts=consts, globals=globals))

    big = 30000 if ib == 16 else 2000000000
    add("plain", consts=[("int", "K", L(12))], body=[["return", B("+", a, V("K"))]])
    add("arith", consts=[("int", "K", B("-", B("*", L(6), L(7)), B("+", L(2), L(3))))], body=[["return", B("*", a, V("K"))]])
    add("chain", consts=[("int", "K", L(5)), ("int", "M", B("*", V("K"), B("+", V("K"), L(1))))], body=[["return", B("-", a, V("M"))]])
    add("negative", consts=[("int", "K", B("-", L(3), L(10)))], body=[["return", B("+", a, V("K"))]])
    add("div-exact", consts=[("int", "K", B("/", L(42), L(6)))], body=[["return", B("+", a, V("K"))]], feats=["div"])
    add("div-trunc", consts=[("int", "K", B("/", L(7), L(2)))], body=[["return", B("+", a, V("K"))]], feats=["div"])
    add("div-neg", consts=[("int", "K", B("/", B("-", L(0), L(7)), L(2)))], body=[["return", B("+", a, V("K"))]], feats=["div"])
    add("mod-pos", consts=[("int", "K", B("%", L(17), L(5)))], body=[["return", B("+", a, V("K"))]], feats=["mod"])
    add("mod-neg-left", consts=[("int", "K", B("%", B("-", L(0), L(7)), L(3)))], body=[["return", B("+", a, V("K"))]], feats=["mod"])
    add("mod-neg-right", consts=[("int", "K", B("%", L(7), B("-", L(0), L(3))))], body=[["return", B("+", a, V("K"))]], feats=["mod"])
    add("byte", consts=[("byte", "K", L(200))], body=[["return", B("+", a, V("K"))]])
    add("byte-wrap", consts=[("byte", "K", L(300))], body=[["return", B("+", a, V("K"))]])
    add("byte-arith", consts=[("byte", "K", B("+", L(250), L(10)))], body=[["decl", "byte", "x", V("K")], ["return", B("+", a, V("x"))]])
    add("big", consts=[("int", "K", L(big))], body=[["return", B("-", a, V("K"))]])
    add("global-init", globals=[("int", "g", L(7)), ("byte", "gb", L(200)), ("int", "h", None)],
        body=[A(V("h"), B("+", V("g"), V("gb"))), A(V("g"), a, "+="), ["return", B("+", V("g"), V("h"))]], feats=["global"])
    add("global-init-expr", globals=[("int", "g", B("+", B("*", L(2), L(3)), L(1))), ("byte", "gb", L(300))],
        body=[["return", B("+", B("*", V("g"), a), V("gb"))]], feats=["global"])
    add("global-init-const", consts=[("int", "K", L(9))], globals=[("int", "g", B("-", V("K"), L(10)))],
        body=[["return", B("+", V("g"), a)]], feats=["global"])
    add("global-init-array", globals=[(["arr", "int", 3], "ga", None)],
        body=[A(["index", V("ga"), L(0)], a), ["return", ["index", V("ga"), L(0)]]], feats=["global", "array"])
    # literals at type boundaries
    mx = (1 << (ib - 1)) - 1
    for n in (0, 1, 127, 128, 255, 256, 32767, mx):
        add(f"literal-{n}", body=[["decl", "byte", "x", L(n)], ["decl", "int64_t", "w", L(n)], A(V("gq"), L(n)),
                                  ["return", B("+", B("+", a, L(n)), B("+", V("x"), ["cast", "int", V("w")]))]],
            globals=[("uint64_t", "gq", None)], feats=["literal"])
    add("literal-neg", body=[["decl", "byte", "x", L(-1)], ["decl", "int64_t", "w", L(-2)], A(V("gq"), L(-3)), A(V("gs"), L(-4)),
                             ["return", B("+", B("*", a, L(-5)), V("x"))]],
        globals=[("uint64_t", "gq", None), ("uint16_t", "gs", None)], feats=["literal"])
    return P


def fam_precedence(ib):
    P = []
    a, b, c = V("a"), V("b"), V("c")
    pa = [("int", "a"), ("int", "b"), ("int", "c")]
    exprs = {
        "mul-add": B("+", a, B("*", b, c)), "add-mul": B("+", B("*", a, b), c), "sub-sub": B("-", B("-", a, b), c),
        "sub-rsub": B("-", a, B("-", b, c)), "div-mul": B("*", B("/", a, B("|", b, L(1))), c), "mod-add": B("+", B("%", a, L(7)), b),
        "shift-add": B("<<", B("+", a, b), L(2)), "add-shift": B("+", a, B("<<", b, L(2))), "neg-mul": B("*", ["neg", a], b),
        "sub-neg": B("-", a, ["neg", b]), "mul-paren-add": B("*", B("+", a, b), c), "mul-mul": B("*", a, B("*", b, c)),
        "shr-shl": B("<<", B(">>", a, L(3)), L(1)),
    }
    for name, e in exprs.items():
        P.append(prog(f"prec-{name}", ["precedence"], [fn("f", "int", pa, [["return", e]])], minparen=True))
    conds = {
        "cmp-add": C("<", a, B("+", b, c)), "and-or": ["or", ["and", C("<", a, b), C("<", b, c)], C("==", a, c)],
        "or-and": ["or", C("<", a, b), ["and", C("<", b, c), C("==", a, c)]], "or-paren-and": ["and", ["or", C("<", a, b), C("<", b, c)], C("==", a, c)],
        "cmp-shift": C(">=", B(">>", a, L(1)), B("-", b, c)),
    }
    for name, e in conds.items():
        P.append(prog(f"prec-{name}", ["precedence", "logic"], [fn("f", "int", pa, [["if", e, [["return", L(1)]], None], ["return", L(0)]])], minparen=True))
    return P


def fixed_programs(ib):
    return (fam_matrix(ib) + fam_convert(ib) + fam_logic(ib) + fam_control(ib) + fam_calls(ib) + fam_memory(ib) +
            fam_const(ib) + fam_precedence(ib))


# ---------------------------------------------------------------------------------------------------
# seeded random programs
class Gen:
    def __init__(self, rnd, ib):
        self.r = rnd
        self.ib = ib
        self.TS = int_types(ib)
        self.vars = []        # (name, T) readable integer variables
        self.assignable = []  # names
        self.bools = []       # bool variable names
        self.helpers = []     # (name, ret, [param types])
        self.feats = set()
        self.nloc = 0
        self.loops = 0
        self.nl = 2           # budget of non-linear operations (variable * variable, / and % by a variable) per program

    def pick_type(self):
        return self.r.choice(["int"] * 4 + ["byte"] * 2 + self.TS)

    def leaf(self, T):
        r = self.r
        same = [n for n, t in self.vars if t == T]
        if same and r.random() < 0.7:
            return V(r.choice(same))
        if r.random() < 0.5 and self.vars:
            n, t = r.choice(self.vars)
            return ["cast", T, V(n)]
        bits, signed = tinfo(T, self.ib)
        hi = min((1 << (bits - (1 if signed else 0))) - 1, (1 << (self.ib - 1)) - 1)
        n = min(r.choice([0, 1, 2, 3, 5, 7, 10, 100, 127, 128, 255, 256, 1000, 32767, hi]), hi)
        lit = ["lit", n, "x"] if r.random() < 0.15 else ["lit", n]
        return lit if T == "int" else ["cast", T, lit]

    def varleaf(self, T):
        same = [n for n, t in self.vars if t == T]
        if same:
            return V(self.r.choice(same))
        if self.vars:
            return ["cast", T, V(self.r.choice(self.vars)[0])]
        return K(T, 1)

    def expr(self, T, d):
        r = self.r
        if d <= 0 or r.random() < 0.2:
            return self.leaf(T)
        x = r.random()
        if x < 0.62:
            op = r.choice(ARITH)
            # operand types whose common type is T
            S = T
            if r.random() < 0.35:
                cands = [s for s in self.TS if s != T and common(T, s, self.ib) == T]
                if cands:
                    S = r.choice(cands)
                    self.feats.add("mixed-type")
            bits = tinfo(T, self.ib)[0]
            lhs = self.expr(T, d - 1)
            if op in ("*", "/", "%") and self.nl <= 0:
                rhs = K(S, r.choice([1, 2, 3, 7, 10]))
                if op != "*":
                    self.feats.add("div" if op == "/" else "mod")
            elif op in ("/", "%"):
                self.nl -= 1
                self.feats.add("div" if op == "/" else "mod")
                y = r.random()
                if y < 0.4:
                    rhs = B("|", self.expr(S, d - 1), K(S, 1))
                elif y < 0.7:
                    rhs = K(S, r.choice([1, 2, 3, 7, 10]))
                    if tinfo(S, self.ib)[1] and r.random() < 0.4:
                        rhs = ["neg", rhs]
                else:
                    rhs = self.varleaf(S)       # may be zero: premise
            elif op in ("<<", ">>"):
                self.feats.add("shift")
                y = r.random()
                if y < 0.6:
                    rhs = K(S, r.randrange(0, bits))
                elif y < 0.88:
                    rhs = B("&", self.expr(S, d - 1), K(S, bits - 1))
                else:
                    rhs = self.varleaf(S)       # may be out of range: premise
            else:
                if op == "*":
                    self.nl -= 1
                rhs = self.expr(S, d - 1)
            if S != T and r.random() < 0.5:
                lhs, rhs = (rhs, lhs) if op in ("+", "*", "&", "|", "^") else (lhs, rhs)
            return B(op, lhs, rhs)
        if x < 0.74:
            self.feats.add("cast")
            return ["cast", T, self.expr(self.pick_type(), d - 1)]
        if x < 0.82:
            self.feats.add("unary")
            return ["neg", self.expr(T, d - 1)]
        if x < 0.92 and self.helpers:
            name, ret, pts = r.choice(self.helpers)
            self.feats.add("call")
            c = ["call", name, [self.expr(p, d - 1) for p in pts]]
            return c if ret == T else ["cast", T, c]
        return self.leaf(T)

    def cond(self, d):
        r = self.r
        x = r.random()
        if d <= 0 or x < 0.5:
            T = self.pick_type()
            S = T
            if r.random() < 0.3:
                cands = [s for s in self.TS if common(T, s, self.ib) is not None]
                S = r.choice(cands)
            return C(r.choice(CMPS), self.expr(T, max(d - 1, 0)), self.expr(S, max(d - 1, 0)))
        self.feats.add("logic")
        if x < 0.7:
            return ["and", self.cond(d - 1), self.cond(d - 1)]
        if x < 0.88:
            return ["or", self.cond(d - 1), self.cond(d - 1)]
        if x < 0.95 or not self.bools:
            return ["not", self.cond(d - 1)]
        return V(r.choice(self.bools))

    def fresh(self, p="v"):
        self.nloc += 1
        return f"{p}{self.nloc}"

    def stmt(self, depth, out, in_loop):
        r = self.r
        x = r.random()
        if x < 0.3 and self.assignable:
            n = r.choice(self.assignable)
            T = dict(self.vars)[n]
            if r.random() < 0.6:
                srcs = [s for s in self.TS if implicit_ok(s, T, self.ib)]
                S = r.choice(srcs) if r.random() < 0.4 else T
                out.append(A(V(n), self.expr(S, 2)))
            else:
                self.feats.add("compound-assign")
                op = r.choice(ASSIGN_OPS)
                if op == "*=":
                    self.nl -= 1
                out.append(A(V(n), K(T, r.choice([2, 3, 5])) if op == "*=" and self.nl < 0 else self.expr(T, 1), op))
        elif x < 0.45:
            T = self.pick_type()
            n = self.fresh()
            out.append(["decl", T, n, self.expr(T, 2)])
            self.vars.append((n, T))
            if not in_loop or True:
                self.assignable.append(n)
        elif x < 0.52:
            n = self.fresh("q")
            out.append(["decl", "bool", n, self.cond(1)])
            self.bools.append(n)
            self.feats.add("bool-value")
        elif x < 0.72 and depth > 0:
            self.feats.add("if")
            nv, na, nb = len(self.vars), len(self.assignable), len(self.bools)
            t, e = [], None
            for _ in range(r.randint(1, 2)):
                self.stmt(depth - 1, t, in_loop)
            # variables declared in a branch are not definitely initialised afterwards
            dropped = [n for n, _ in self.vars[nv:]]
            del self.vars[nv:], self.bools[nb:]
            self.assignable = [n for n in self.assignable if n not in dropped]
            if r.random() < 0.5:
                e = []
                for _ in range(r.randint(1, 2)):
                    self.stmt(depth - 1, e, in_loop)
            dropped = [n for n, _ in self.vars[nv:]]
            del self.vars[nv:], self.bools[nb:]
            self.assignable = [n for n in self.assignable if n not in dropped]
            out.append(["if", self.cond(1), t, e])
        elif x < 0.84 and depth > 0 and self.loops < 2:
            self.loops += 1
            i = self.fresh("i")
            out.append(["decl", "int", i, L(0)])
            ints = [n for n, t in self.vars if t == "int"]
            bound = L(r.randint(1, 3)) if r.random() < 0.4 or not ints else B("&", V(r.choice(ints)), L(r.choice([1, 3])))
            nv, nb = len(self.vars), len(self.bools)
            body = []
            self.vars.append((i, "int"))
            for _ in range(r.randint(1, 2)):
                self.stmt(depth - 1, body, True)
            dropped = [n for n, _ in self.vars[nv + 1:]]
            del self.vars[nv + 1:], self.bools[nb:]
            self.assignable = [n for n in self.assignable if n not in dropped]
            if r.random() < 0.5:
                self.feats.add("for")
                out.append(["for", A(V(i), L(0)), C("<", V(i), bound), A(V(i), L(1), "+="), body])
            else:
                self.feats.add("while")
                out.append(["while", C("<", V(i), bound), body + [A(V(i), L(1), "+=")]])
        elif x < 0.92 and depth > 0:
            self.feats.add("switch")
            nv, nb = len(self.vars), len(self.bools)
            sel = B("&", self.expr("int", 1), L(3))
            vals = r.sample([0, 1, 2, 3], r.randint(1, 3))
            opts = []
            for v in vals:
                body = []
                self.stmt(depth - 1, body, in_loop)
                opts.append([L(v), body])
                dropped = [n for n, _ in self.vars[nv:]]
                del self.vars[nv:], self.bools[nb:]
                self.assignable = [n for n in self.assignable if n not in dropped]
            body = []
            self.stmt(depth - 1, body, in_loop)
            dropped = [n for n, _ in self.vars[nv:]]
            del self.vars[nv:], self.bools[nb:]
            self.assignable = [n for n in self.assignable if n not in dropped]
            opts.insert(r.randint(0, len(opts)), [None, body])
            out.append(["switch", sel, opts])
        elif x < 0.96 and depth > 0 and not in_loop:
            self.feats.add("early-return")
            out.append(["if", self.cond(1), [["return", self.expr(self.ret, 1)]], None])
        else:
            g = [n for n, t in self.vars if n.startswith("g")]
            if g:
                n = r.choice(g)
                out.append(A(V(n), self.expr(dict(self.vars)[n], 2)))
                self.feats.add("global")
            else:
                out.append(A(V(self.assignable[0]), self.expr(dict(self.vars)[self.assignable[0]], 2)))

    def helper(self, name):
        r = self.r
        pts = [self.pick_type() for _ in range(r.randint(1, 2))]
        ret = self.pick_type()
        saved = (self.vars, self.assignable, self.bools, self.helpers)
        self.vars = [(f"x{k}", t) for k, t in enumerate(pts)]
        self.assignable, self.bools, self.helpers = [], [], []
        saved_nl, self.nl = self.nl, 1
        body = []
        if r.random() < 0.5:
            body.append(["if", self.cond(1), [["return", self.expr(ret, 1)]], None])
        body.append(["return", self.expr(ret, 2)])
        self.vars, self.assignable, self.bools, self.helpers = saved
        self.nl = saved_nl
        return fn(name, ret, [(t, f"x{k}") for k, t in enumerate(pts)], body), (name, ret, pts)

    def program(self, pid):
        r = self.r
        funcs = []
        if r.random() < 0.5:
            f, sig = self.helper("g")
            funcs.append(f)
            self.helpers.append(sig)
        params = [(self.pick_type(), n) for n in ("a", "b", "c")[: r.randint(2, 3)]]
        self.ret = self.pick_type()
        globs = [(self.pick_type(), f"g{k}", None) for k in range(r.randint(0, 2))]
        self.vars = [(n, t) for t, n in params] + [(n, t) for t, n, _ in globs]
        self.assignable = [n for n, _ in self.vars]
        body = []
        for _ in range(r.randint(2, 4)):
            self.stmt(2, body, False)
        body.append(["return", self.expr(self.ret, 2)])
        funcs.append(fn("f", self.ret, params, body))
        return prog(pid, ["random"] + sorted(self.feats), funcs, globals=globs)


def random_program(seed, k, ib):
    rnd = random.Random(f"c3-{seed}-{k}-{ib}")
    return Gen(rnd, ib).program(f"r{ib}-{seed}-{k}")


def programs(tier, seed, ib=32):
    """the program family of a tier for a target with `ib`-bit int"""
    fixed = fixed_programs(ib)
    rnd = random.Random(f"c3sel-{seed}-{ib}")
    if tier == "quick":
        matrix = [p for p in fixed if "matrix" in p["feats"]]
        rest = [p for p in fixed if "matrix" not in p["feats"]]
        same = [p for p in matrix if "same-type" in p["feats"] and p["id"].split("-")[2].split(".")[0] in ("int", "byte", "int64_t", "uint16_t" if ib == 32 else "uint32_t")]
        mixed = [p for p in matrix if "mixed-type" in p["feats"]]
        conv = [p for p in rest if p["id"].split("-")[0] == "opassign"]
        other = [p for p in rest if p not in conv]
        sel = same + rnd.sample(mixed, min(len(mixed), 28)) + rnd.sample(conv, min(len(conv), 12)) + other
        return sel + [random_program(seed, k, ib) for k in range(30)]
    return fixed + [random_program(seed, k, ib) for k in range(1200 if ib == 32 else 300)]
