"""Hand-written IR-text templates (5-9 blocks, SSA form as the optimiser leaves it) of NESTED structured control flow
for C23: shapes that the structure detector of ppci/graph/relooper.py accepts or rejects beyond the 2-4 block
skeleton family of corpus/irprogs.py.  Names: "irn:<template>", entry function f.  Conditions depend on the symbolic
arguments, trip counts are masked to 0..3 so that two and more iterations of inner and outer loops lie inside the
unwinding bound, and selected blocks update the global g so that a doubled or skipped block is observable.
"""

HDR = "module m;\nglobal variable g (4 bytes aligned at 4)\n"


def _g_add(tag, val):
    """IR lines: g = g + val"""
    return f"    i32 go{tag} = load g;\n    i32 gn{tag} = go{tag} + {val};\n    store gn{tag}, g;\n"


T = {}

T["loop_in_if_in_loop"] = HDR + """global function i32 f(i32 a, i32 b) {
  entry: {
    i32 zero = 0;
    i32 one = 1;
    i32 three = 3;
    i32 n = b & three;
    i32 am = a & three;
    jmp outer;
  }
  outer: {
    i32 i = phi entry: zero, latch: i2;
    i32 s = phi entry: zero, latch: s3;
    cjmp i < n ? guard : done;
  }
  guard: {
    cjmp am > i ? pre : latch;
  }
  pre: {
    jmp inner;
  }
  inner: {
    i32 j = phi pre: zero, body: j2;
    i32 s1 = phi pre: s, body: s2;
    cjmp j < am ? body : latch;
  }
  body: {
    i32 s2 = s1 + j;
    i32 j2 = j + one;
""" + _g_add("b", "s2") + """    jmp inner;
  }
  latch: {
    i32 sl = phi guard: s, inner: s1;
    i32 k = 1000;
    i32 s3 = sl + k;
    i32 i2 = i + one;
""" + _g_add("l", "i2") + """    jmp outer;
  }
  done: {
    return s;
  }
}
"""

T["if_if_while_shared_joins"] = HDR + """global function i32 f(i32 a, i32 b, i32 c) {
  entry: {
    i32 zero = 0;
    i32 one = 1;
    i32 three = 3;
    i32 n = c & three;
    cjmp a > zero ? inner_if : tail;
  }
  inner_if: {
    cjmp b > zero ? head : mid;
  }
  head: {
    i32 s = phi inner_if: zero, body: s2;
    i32 k = phi inner_if: n, body: k2;
    cjmp k > zero ? body : mid;
  }
  body: {
    i32 s2 = s + k;
    i32 k2 = k - one;
    jmp head;
  }
  mid: {
    i32 sm = phi inner_if: zero, head: s;
    i32 c100 = 100;
    i32 t = sm + c100;
""" + _g_add("m", "t") + """    jmp tail;
  }
  tail: {
    i32 st = phi entry: zero, mid: sm;
    i32 m = st * three;
    i32 gl = load g;
    i32 r = m + gl;
    return r;
  }
}
"""

T["if_in_loop_in_if"] = HDR + """global function i32 f(i32 a, i32 b) {
  entry: {
    i32 zero = 0;
    i32 one = 1;
    i32 three = 3;
    i32 seven = 7;
    cjmp a > zero ? pre : tail;
  }
  pre: {
    i32 n = b & three;
    jmp head;
  }
  head: {
    i32 i = phi pre: zero, latch: i2;
    i32 s = phi pre: a, latch: s2;
    cjmp i < n ? body : after;
  }
  body: {
    i32 t = i & one;
    cjmp t == zero ? even : odd;
  }
  even: {
    i32 se = s + i;
    jmp latch;
  }
  odd: {
    i32 so = s ^ seven;
""" + _g_add("o", "so") + """    jmp latch;
  }
  latch: {
    i32 s2 = phi even: se, odd: so;
    i32 i2 = i + one;
    jmp head;
  }
  after: {
""" + _g_add("a", "s") + """    jmp tail;
  }
  tail: {
    i32 r0 = phi entry: b, after: s;
    i32 r = r0 * three;
    return r;
  }
}
"""

T["two_sequential_loops"] = HDR + """global function i32 f(i32 a, i32 b) {
  entry: {
    i32 zero = 0;
    i32 one = 1;
    i32 three = 3;
    i32 n = a & three;
    i32 m = b & three;
    jmp h1;
  }
  h1: {
    i32 i = phi entry: zero, b1: i2;
    i32 s = phi entry: b, b1: s2;
    cjmp i < n ? b1 : mid;
  }
  b1: {
    i32 s1 = s + i;
    i32 s2 = s1 + three;
    i32 i2 = i + one;
    jmp h1;
  }
  mid: {
    store s, g;
    jmp h2;
  }
  h2: {
    i32 j = phi mid: zero, b2: j2;
    i32 t = phi mid: s, b2: t2;
    cjmp j < m ? b2 : done;
  }
  b2: {
    i32 t1 = t * three;
    i32 t2 = t1 - j;
    i32 j2 = j + one;
    jmp h2;
  }
  done: {
    i32 gl = load g;
    i32 r = t + gl;
    return r;
  }
}
"""

T["loop_exit_to_outer_join"] = HDR + """global function i32 f(i32 a, i32 b) {
  entry: {
    i32 zero = 0;
    i32 one = 1;
    i32 three = 3;
    i32 n = b & three;
    cjmp a > zero ? head : tail;
  }
  head: {
    i32 s = phi entry: zero, body: s2;
    i32 k = phi entry: n, body: k2;
    cjmp k > zero ? body : tail;
  }
  body: {
    i32 s2 = s + k;
    i32 k2 = k - one;
    jmp head;
  }
  tail: {
    i32 st = phi entry: a, head: s;
    i32 seven = 7;
    i32 r = st + seven;
""" + _g_add("t", "r") + """    return r;
  }
}
"""

T["early_return_in_nested_loop"] = HDR + """global function i32 f(i32 a, i32 b) {
  entry: {
    i32 zero = 0;
    i32 one = 1;
    i32 three = 3;
    i32 n = b & three;
    i32 am = a & three;
    jmp outer;
  }
  outer: {
    i32 i = phi entry: zero, latch: i2;
    i32 s = phi entry: zero, latch: s3;
    cjmp i < n ? guard : done;
  }
  guard: {
    cjmp am > i ? pre : latch;
  }
  pre: {
    jmp inner;
  }
  inner: {
    i32 j = phi pre: zero, cont: j2;
    i32 s1 = phi pre: s, cont: s2;
    cjmp j < am ? body : latch;
  }
  body: {
    i32 s2 = s1 + three;
    cjmp s2 == a ? ret : cont;
  }
  ret: {
    i32 c77 = 77;
    i32 rr = j + c77;
    store rr, g;
    return rr;
  }
  cont: {
    i32 j2 = j + one;
    jmp inner;
  }
  latch: {
    i32 sl = phi guard: s, inner: s1;
    i32 s3 = sl + one;
    i32 i2 = i + one;
""" + _g_add("l", "s3") + """    jmp outer;
  }
  done: {
    return s;
  }
}
"""

T["break_to_follow_and_continue"] = HDR + """global function i32 f(i32 a, i32 b) {
  entry: {
    i32 zero = 0;
    i32 one = 1;
    i32 three = 3;
    i32 seven = 7;
    i32 n = a & seven;
    jmp head;
  }
  head: {
    i32 i = phi entry: zero, latch: i2;
    i32 s = phi entry: zero, latch: s2;
    cjmp i < n ? chk : follow;
  }
  chk: {
    i32 t = i ^ b;
    cjmp t == three ? follow : work;
  }
  work: {
    i32 u = i & one;
    cjmp u == zero ? latch : add;
  }
  add: {
    i32 sa = s + i;
""" + _g_add("a", "sa") + """    jmp latch;
  }
  latch: {
    i32 s2 = phi work: s, add: sa;
    i32 i2 = i + one;
    jmp head;
  }
  follow: {
""" + _g_add("f", "one") + """    i32 k = 1000;
    i32 r = s + k;
    return r;
  }
}
"""

T["loops_in_both_arms"] = HDR + """global function i32 f(i32 a, i32 b) {
  entry: {
    i32 zero = 0;
    i32 one = 1;
    i32 three = 3;
    i32 n = a & three;
    i32 m = b & three;
    cjmp a > b ? hl : hr;
  }
  hl: {
    i32 i = phi entry: zero, bl: i2;
    i32 s = phi entry: zero, bl: s2;
    cjmp i < n ? bl : join;
  }
  bl: {
    i32 s2 = s + three;
    i32 i2 = i + one;
""" + _g_add("l", "i2") + """    jmp hl;
  }
  hr: {
    i32 j = phi entry: zero, br: j2;
    i32 t = phi entry: one, br: t2;
    cjmp j < m ? br : join;
  }
  br: {
    i32 t2 = t * three;
    i32 j2 = j + one;
    jmp hr;
  }
  join: {
    i32 r0 = phi hl: s, hr: t;
    i32 gl = load g;
    i32 r = r0 - gl;
    return r;
  }
}
"""

T["directly_nested_loops"] = HDR + """global function i32 f(i32 a, i32 b) {
  entry: {
    i32 zero = 0;
    i32 one = 1;
    i32 three = 3;
    i32 n = a & three;
    i32 m = b & three;
    jmp outer;
  }
  outer: {
    i32 i = phi entry: zero, latch: i2;
    i32 s = phi entry: zero, latch: s1;
    cjmp i < n ? inner : done;
  }
  inner: {
    i32 j = phi outer: zero, body: j2;
    i32 s1 = phi outer: s, body: s2;
    cjmp j < m ? body : latch;
  }
  body: {
    i32 p = i * j;
    i32 s2 = s1 + p;
    i32 j2 = j + one;
    jmp inner;
  }
  latch: {
    i32 i2 = i + one;
""" + _g_add("l", "s1") + """    jmp outer;
  }
  done: {
    return s;
  }
}
"""

T["do_while_in_if_in_do_while"] = HDR + """global function i32 f(i32 a, i32 b) {
  entry: {
    i32 zero = 0;
    i32 one = 1;
    i32 three = 3;
    i32 n = b & three;
    i32 am = a & three;
    jmp obody;
  }
  obody: {
    i32 i = phi entry: zero, latch: i2;
    i32 s = phi entry: zero, latch: s3;
    cjmp am > i ? ibody : latch;
  }
  ibody: {
    i32 j = phi obody: zero, ibody: j2;
    i32 s1 = phi obody: s, ibody: s2;
    i32 s2 = s1 + j;
    i32 j2 = j + one;
    cjmp j2 < am ? ibody : latch;
  }
  latch: {
    i32 sl = phi obody: s, ibody: s2;
    i32 k = 100;
    i32 s3 = sl + k;
    i32 i2 = i + one;
""" + _g_add("l", "s3") + """    cjmp i2 < n ? obody : done;
  }
  done: {
    return s3;
  }
}
"""

T["loop_in_else_with_join_code"] = HDR + """global function i32 f(i32 a, i32 b) {
  entry: {
    i32 zero = 0;
    i32 one = 1;
    i32 three = 3;
    i32 n = b & three;
    i32 am = a & three;
    jmp outer;
  }
  outer: {
    i32 i = phi entry: zero, join: i2;
    i32 s = phi entry: a, join: s3;
    cjmp i < n ? guard : done;
  }
  guard: {
    cjmp am == i ? quick : inner;
  }
  quick: {
    i32 sq = s ^ three;
    jmp join;
  }
  inner: {
    i32 j = phi guard: i, body: j2;
    i32 s1 = phi guard: s, body: s2;
    cjmp j < am ? body : join;
  }
  body: {
    i32 s2 = s1 + one;
    i32 j2 = j + one;
    jmp inner;
  }
  join: {
    i32 sj = phi quick: sq, inner: s1;
    i32 s3 = sj + three;
    i32 i2 = i + one;
""" + _g_add("j", "s3") + """    jmp outer;
  }
  done: {
    store s, g;
    return s;
  }
}
"""

T["if_chain_shared_exit_join"] = HDR + """global function i32 f(i32 a, i32 b, i32 c) {
  entry: {
    i32 zero = 0;
    i32 one = 1;
    i32 three = 3;
    cjmp a > zero ? l1 : out;
  }
  l1: {
    i32 x1 = a + three;
    cjmp b > zero ? l2 : j1;
  }
  l2: {
    i32 x2 = x1 * three;
    cjmp c > zero ? l3 : j1;
  }
  l3: {
    i32 x3 = x2 - c;
""" + _g_add("c", "x3") + """    jmp j1;
  }
  j1: {
    i32 y = phi l1: x1, l2: x2, l3: x3;
""" + _g_add("j", "y") + """    jmp out;
  }
  out: {
    i32 r0 = phi entry: b, j1: y;
    i32 gl = load g;
    i32 r = r0 + gl;
    return r;
  }
}
"""

T["loop_with_two_exits_to_different_joins"] = HDR + """global function i32 f(i32 a, i32 b) {
  entry: {
    i32 zero = 0;
    i32 one = 1;
    i32 three = 3;
    i32 n = a & three;
    cjmp b > zero ? head : far;
  }
  head: {
    i32 i = phi entry: zero, latch: i2;
    i32 s = phi entry: zero, latch: s2;
    cjmp i < n ? body : near;
  }
  body: {
    i32 s2 = s + b;
    cjmp s2 == three ? far : latch;
  }
  latch: {
    i32 i2 = i + one;
    jmp head;
  }
  near: {
""" + _g_add("n", "s") + """    jmp far;
  }
  far: {
    i32 r0 = phi entry: a, body: s2, near: s;
    i32 gl = load g;
    i32 r = r0 + gl;
    return r;
  }
}
"""


def names():
    return ["irn:" + k for k in T]


def source(name):
    return T[name.split(":", 1)[1]]
