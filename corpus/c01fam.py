"""Program families for C01 (C front end preserves meaning).  Programs are JSON-able data in the format of
ref/csem_prog.py; nothing here imports ppci.  Each family entry is (family tag, program dict, tags) where tags
(operators, operand types) end up in the harness name so that known findings can be keyed by pattern.

Families
  expr/bin    R f(T1 a, T2 b) { return a OP b; }           every binary operator x (T1, T2)
  expr/un     R f(T a) { return OP a; }                     - ~ ! +
  expr/cast   R f(T a) { return (U)a; }  and implicit  U x = a / return a
  expr/cond   R f(T1 a, T2 b, T3 c) { return a ? b : c; }
  expr/deep   depth 2-3 trees over a, b, c and small literals, sampled by seed
  stmt/*      statement templates (control flow, compound assignment, ++/--, arrays, structs, pointers, globals,
              calls, externals; declarations with initialisers in loop bodies and in for-init clauses at nesting
              depth 2, loops running >= 2 times), instantiated over operand types
"""
import random
import itertools

TYPES = ["char", "schar", "uchar", "short", "ushort", "int", "uint", "long", "ulong", "llong", "ullong"]
BINOPS = ["add", "sub", "mul", "div", "mod", "shl", "shr", "band", "bor", "bxor", "lt", "le", "gt", "ge", "eq", "ne",
          "land", "lor", "comma"]
UNOPS = ["neg", "inv", "lnot", "pos"]
COMPOUND = ["add", "sub", "mul", "div", "mod", "shl", "shr", "band", "bor", "bxor"]
OPTAG = {k: k for k in BINOPS + UNOPS}
OPTAG.update({k: "cmp_" + k for k in ("lt", "le", "gt", "ge", "eq", "ne")})
OPTAG.update({"land": "log_and", "lor": "log_or", "lnot": "log_not"})


def V(n):
    return ["var", n]


def L(v, s=""):
    return ["lit", v, s]


def B(op, a, b):
    return ["bin", op, a, b]


def U(op, a):
    return ["un", op, a]


def C(t, e):
    return ["cast", t, e]


def Q(c, a, b):
    return ["cond", c, a, b]


def A(lv, e, op=""):
    return ["assign", op, lv, e]


def ID(kind, lv):
    return ["incdec", kind, lv]


def IX(a, i):
    return ["index", a, i]


def CALL(f, *args):
    return ["call", f, list(args)]


def E(e):
    return ["expr", e]


def D(t, n, init=None):
    return ["decl", t, n, init]


def DL(t, n, items):
    return ["decl", t, n, ["list", list(items)]]


def IF(c, a, b=None):
    return ["if", c, a, b]


def RET(e=None):
    return ["return", e]


def BLK(*s):
    return ["block", list(s)]


def func(name, ret, params, body):
    return [name, ret, [[n, t] for n, t in params], list(body)]


def prog(funcs, globals_=(), externs=(), structs=None):
    return {"structs": structs or {}, "globals": [list(g) for g in globals_], "externs": [list(x) for x in externs],
            "funcs": list(funcs)}


def fexpr(ret, ptypes, expr):
    names = "abc"
    return prog([func("f", ret, [(names[i], t) for i, t in enumerate(ptypes)], [RET(expr)])])


def _ops(e, acc):
    if isinstance(e, list) and e:
        k = e[0]
        if not isinstance(k, str):
            for x in e:
                _ops(x, acc)
            return
        if k == "bin" or k == "un":
            acc.add(OPTAG[e[1]])
        elif k == "assign":
            acc.add("asg_" + (e[1] or "plain"))
        elif k in ("cast", "cond", "incdec", "index", "field", "arrow", "deref", "addr", "call", "sizeof"):
            acc.add(k if k != "incdec" else e[1])
        for x in e[1:]:
            if isinstance(x, list):
                _ops(x, acc)


def ops_of(p):
    acc = set()
    for f in p["funcs"]:
        _ops(f[3], acc)
    return sorted(acc)


def entry(fam, p, types=()):
    return (fam, p, dict(ops=ops_of(p), types=list(types)))


# ---------------------------------------------------------------------------------------------------
# expression families
# type pairs of the quick tier: every type on both sides, every same-rank signed/unsigned pair, narrow x narrow,
# narrow x wide, int x long, unsigned-int x long (the pair whose common type depends on the data model)
QUICK_PAIRS = [("int", "int"), ("uint", "int"), ("int", "uint"), ("schar", "uchar"), ("uchar", "schar"),
               ("short", "ushort"), ("ushort", "short"), ("char", "int"), ("uchar", "int"), ("int", "ushort"),
               ("long", "int"), ("uint", "long"), ("long", "uint"), ("ulong", "long"), ("long", "ulong"),
               ("llong", "ulong"), ("ullong", "int"), ("int", "ullong"), ("ushort", "ushort"), ("uchar", "uchar"),
               ("short", "llong"), ("uint", "uchar"), ("char", "ulong")]


def bin_family(pairs, ops=BINOPS):
    out = []
    for op in ops:
        for ta, tb in pairs:
            out.append(entry("expr/bin", fexpr("llong", [ta, tb], B(op, V("a"), V("b"))), (ta, tb)))
    return out


def un_family(types=TYPES):
    return [entry("expr/un", fexpr("llong", [t], U(op, V("a"))), (t,)) for op in UNOPS for t in types]


def cast_family(pairs):
    out = []
    for tf, tt in pairs:
        out.append(entry("expr/cast", fexpr("llong", [tf], C(tt, V("a"))), (tf, tt)))
        out.append(entry("expr/implicit-return", fexpr(tt, [tf], V("a")), (tf, tt)))
    return out


def implicit_family(pairs):
    out = []
    for tf, tt in pairs:
        p = prog([func("f", "llong", [("a", tf)], [D(tt, "x", V("a")), RET(V("x"))])])
        out.append(entry("expr/implicit-init", p, (tf, tt)))
    return out


def cond_family(triples):
    out = []
    for t1, t2, t3 in triples:
        out.append(entry("expr/cond", fexpr("llong", [t1, t2, t3], Q(V("a"), V("b"), V("c"))), (t1, t2, t3)))
    return out


QUICK_CAST = [("int", "char"), ("int", "uchar"), ("int", "short"), ("int", "ushort"), ("uint", "int"), ("int", "uint"),
              ("schar", "uint"), ("uchar", "int"), ("char", "ushort"), ("short", "ulong"), ("ushort", "long"),
              ("long", "int"), ("ulong", "schar"), ("llong", "ushort"), ("ullong", "short"), ("uint", "llong"),
              ("int", "ullong"), ("uchar", "schar"), ("schar", "uchar"), ("ulong", "long"), ("llong", "uint"),
              ("ushort", "short")]
QUICK_COND = [("int", "int", "int"), ("long", "int", "int"), ("llong", "short", "uint"), ("uchar", "int", "uint"),
              ("ulong", "schar", "uchar"), ("short", "long", "uint"), ("uint", "ushort", "short"), ("char", "llong", "ulong"),
              ("ullong", "uchar", "uchar"), ("int", "uint", "long"), ("schar", "ulong", "int"), ("ushort", "char", "short")]


def _leaf(rnd):
    f = rnd.random()
    if f < 0.7:
        return V(rnd.choice("abc"))
    if f < 0.9:
        return L(rnd.choice([0, 1, 2, 3, 5, 7, 8, 31, 100, 255, 256, 1000, 65535]), rnd.choice(["", "", "", "u", "l", "ul"]))
    return C(rnd.choice(TYPES), V(rnd.choice("abc")))


def _tree(rnd, depth):
    if depth == 0:
        return _leaf(rnd)
    f = rnd.random()
    if f < 0.62:
        op = rnd.choice(BINOPS[:-1])
        return B(op, _tree(rnd, depth - 1), _tree(rnd, rnd.choice([0, depth - 1])))
    if f < 0.74:
        return U(rnd.choice(UNOPS), _tree(rnd, depth - 1))
    if f < 0.86:
        return C(rnd.choice(TYPES), _tree(rnd, depth - 1))
    if f < 0.96:
        return Q(_tree(rnd, depth - 1), _tree(rnd, rnd.choice([0, depth - 1])), _leaf(rnd))
    return B("comma", _leaf(rnd), _tree(rnd, depth - 1))


def _heavy(e):
    """number of multiplications / divisions (bit-blasting cost)"""
    if not isinstance(e, list):
        return 0
    n = 1 if e[0] == "bin" and e[1] in ("mul", "div", "mod") else 0
    return n + sum(_heavy(x) for x in e[1:] if isinstance(x, list))


def _nonlinear_inner(e, root=True):
    """a product / quotient / remainder of two non-literal operands occurs anywhere but at the root of the tree (casts
    above it allowed).  Below another operator its value gets constrained -- by a branch condition, a shift count
    range, a divisor != 0, an overflow premise -- and the resulting equations over 64-bit products are not reliably
    decided within the time bound (seen: ((b | 31) * a) == 1ul, (b > c) << (a * b)).  Products of two variables are
    covered at the root, by the depth-1 matrices and by the compound-assignment templates."""
    if not isinstance(e, list) or not e or not isinstance(e[0], str):
        return False
    k = e[0]
    if k == "cast":
        return _nonlinear_inner(e[2], root)
    if k == "bin":
        if e[1] in ("mul", "div", "mod") and not root and e[2][0] != "lit" and e[3][0] != "lit":
            return True
        return _nonlinear_inner(e[2], False) or _nonlinear_inner(e[3], False)
    if k == "un":
        return _nonlinear_inner(e[2], False)
    if k == "cond":
        return any(_nonlinear_inner(x, False) for x in e[1:4])
    return False


def deep_family(rnd, n):
    out = []
    while len(out) < n:
        ts = [rnd.choice(TYPES) for _ in range(3)]
        e = _tree(rnd, rnd.choice([2, 2, 3]))
        if _heavy(e) > 1 or _nonlinear_inner(e):
            continue
        out.append(entry("expr/deep", fexpr(rnd.choice(["llong", "llong", "int", "uint", "ulong", "short", "uchar"]), ts, e), ts))
    return out


# ---------------------------------------------------------------------------------------------------
# statement templates.  Each returns a list of entries; `ts` = list of type tuples to instantiate over.
def t_ifelse(ta, tb):
    body = [D("llong", "r"),
            IF(B("gt", V("a"), V("b")), E(A(V("r"), B("sub", V("a"), V("b")))),
               IF(B("eq", V("a"), V("b")), E(A(V("r"), L(0))), E(A(V("r"), B("sub", V("b"), V("a")))))),
            RET(B("mul", V("r"), L(2)))]
    return entry("stmt/ifelse", prog([func("f", "llong", [("a", ta), ("b", tb)], body)]), (ta, tb))


def t_while(ti, tk):
    # while with break and continue; trip count bounded by the mask
    body = [D("int", "s", L(0)), D(ti, "i", L(0)),
            ["while", B("lt", V("i"), B("band", V("a"), L(3))),
             BLK(E(ID("postinc", V("i"))),
                 IF(B("eq", V("i"), V("k")), ["continue"]),
                 IF(B("gt", V("s"), L(3)), ["break"]),
                 E(A(V("s"), V("i"), "add")))],
            RET(V("s"))]
    return entry("stmt/while", prog([func("f", "int", [("a", ti), ("k", tk)], body)]), (ti, tk))


def t_for(ti, tn):
    body = [D("long", "s", L(0)),
            ["for", D(ti, "i", L(0)), B("lt", V("i"), B("band", V("n"), L(3))), ID("preinc", V("i")),
             BLK(IF(B("eq", V("i"), L(1)), ["continue"]), E(A(V("s"), B("add", V("i"), V("k")), "add")),
                 IF(B("gt", V("s"), L(1000)), ["break"]))],
            RET(V("s"))]
    return entry("stmt/for", prog([func("f", "long", [("n", tn), ("k", "short")], body)]), (ti, tn))


def t_dowhile(ti, with_continue):
    inner = [E(ID("postinc", V("i")))]
    if with_continue:
        inner.append(IF(B("band", V("i"), L(1)), ["continue"]))
    inner.append(E(A(V("s"), V("i"), "add")))
    body = [D("int", "s", L(0)), D(ti, "i", L(0)),
            ["do", BLK(*inner), B("lt", V("i"), B("band", V("n"), L(3)))],
            RET(V("s"))]
    return entry("stmt/do" + ("-continue" if with_continue else ""), prog([func("f", "int", [("n", ti)], body)]), (ti,))


def t_dowhile_break(ti):
    body = [D("int", "s", L(0)), D(ti, "i", V("n")),
            ["do", BLK(IF(B("gt", V("s"), L(2)), ["break"]), E(ID("preinc", V("s"))), E(A(V("i"), L(1), "shr"))),
             B("ne", V("i"), L(0))],
            RET(V("s"))]
    return entry("stmt/do-break", prog([func("f", "int", [("n", ti)], body)]), (ti,))


def t_switch(tc, cases, default=True):
    items = []
    for k, v in enumerate(cases):
        items.append(["case", v])
        if k == 0:
            items.append(RET(V("b")))
        elif k == 1:
            items.append(E(A(V("b"), L(1), "add")))          # falls through
        elif k == 2:
            items += [E(A(V("b"), L(2), "add")), ["break"]]
        else:
            items.append(RET(L(k + 10)))
    if default:
        items += [["default"], E(A(V("b"), L(0)))]
    body = [["switch", V("a"), items], RET(V("b"))]
    return entry("stmt/switch", prog([func("f", "int", [("a", tc), ("b", "int")], body)]), (tc,))


def t_switch_default_first(tc):
    items = [["default"], E(A(V("b"), L(7), "add")), ["case", 1], E(A(V("b"), L(1), "add")), ["break"],
             ["case", 2], E(A(V("b"), L(2), "sub"))]
    body = [["switch", V("a"), items], RET(V("b"))]
    return entry("stmt/switch-default-first", prog([func("f", "int", [("a", tc), ("b", "int")], body)]), (tc,))


def t_switch_in_loop(tc):
    items = [["case", 0], ["continue"], ["case", 1], E(A(V("s"), L(1), "add")), ["break"], ["default"], E(A(V("s"), L(4), "add"))]
    body = [D("int", "s", L(0)),
            ["for", D(tc, "i", L(0)), B("lt", V("i"), L(3)), ID("postinc", V("i")),
             BLK(["switch", B("band", B("add", V("a"), V("i")), L(3)), items], E(A(V("s"), L(16), "add")))],
            RET(V("s"))]
    return entry("stmt/switch-in-loop", prog([func("f", "int", [("a", tc)], body)]), (tc,))


def t_compound(op, tx, tb):
    body = [D(tx, "x", V("a")), E(A(V("x"), V("b"), op)), RET(V("x"))]
    return entry("stmt/compound", prog([func("f", "llong", [("a", tx), ("b", tb)], body)]), (tx, tb))


def t_compound_value(op, tx, tb):
    # the value of the assignment expression itself (type of the left operand)
    body = [D(tx, "x", V("a")), D("llong", "r", A(V("x"), V("b"), op)), RET(B("bxor", V("r"), V("x")))]
    return entry("stmt/compound-value", prog([func("f", "llong", [("a", tx), ("b", tb)], body)]), (tx, tb))


def t_incdec(kind, tx):
    body = [D(tx, "x", V("a")), D("llong", "r", ID(kind, V("x"))), E(A(V("g"), V("x"))), RET(V("r"))]
    return entry("stmt/incdec", prog([func("f", "llong", [("a", tx)], body)], globals_=[("g", tx, None)]), (tx,))


def t_incdec_global(kind, tx):
    body = [RET(B("add", C("llong", ID(kind, V("g"))), L(0)))]
    return entry("stmt/incdec-global", prog([func("f", "llong", [], body)], globals_=[("g", tx, None)]), (tx,))


def t_assign_chain(t1, t2):
    body = [D(t1, "x", L(0)), D(t2, "y", L(0)), D("llong", "r", A(V("x"), A(V("y"), V("a")))),
            RET(B("add", B("add", V("r"), V("x")), V("y")))]
    return entry("stmt/assign-chain", prog([func("f", "llong", [("a", "int")], body)]), (t1, t2))


def t_local_array(te, ti):
    body = [DL(["arr", te, 4], "t", [L(1), L(2), L(3)]),
            E(A(IX(V("t"), B("band", V("i"), L(3))), V("v"))),
            RET(B("add", C("llong", IX(V("t"), B("band", B("add", V("i"), L(1)), L(3)))), IX(V("t"), L(3))))]
    return entry("stmt/local-array", prog([func("f", "llong", [("i", ti), ("v", "int")], body)]), (te, ti))


def t_global_array(te, ti):
    body = [D("int", "k", B("band", V("i"), L(3))), D(te, "old", IX(V("tab"), V("k"))),
            E(A(IX(V("tab"), V("k")), V("v"))),
            RET(B("add", C("llong", V("old")), IX(V("tab"), B("band", B("add", V("k"), L(1)), L(3)))))]
    return entry("stmt/global-array", prog([func("f", "llong", [("i", ti), ("v", "int")], body)],
                                           globals_=[("tab", ["arr", te, 4], [1, 2, 3, 4])]), (te, ti))


def t_array_sum(te):
    body = [DL(["arr", te, 3], "t", [V("a"), V("b"), B("bxor", V("a"), V("b"))]), D("llong", "s", L(0)),
            ["for", D("int", "i", L(0)), B("lt", V("i"), L(3)), ID("postinc", V("i")), E(A(V("s"), IX(V("t"), V("i")), "add"))],
            RET(V("s"))]
    return entry("stmt/array-sum", prog([func("f", "llong", [("a", te), ("b", te)], body)]), (te,))


def t_struct(t1, t2, t3):
    S = {"P": [["x", t1], ["c", t2], ["s", t3]]}
    body = [D(["struct", "P"], "p"),
            E(A(["field", V("p"), "x"], V("a"))), E(A(["field", V("p"), "c"], V("b"))),
            E(A(["field", V("p"), "s"], B("bxor", V("a"), V("b")))),
            E(A(V("gp"), V("p"))),
            RET(B("add", B("add", C("llong", ["field", V("p"), "x"]), ["field", V("p"), "c"]), ["field", V("gp"), "s"]))]
    return entry("stmt/struct", prog([func("f", "llong", [("a", "int"), ("b", "int")], body)],
                                     globals_=[("gp", ["struct", "P"], None)], structs=S), (t1, t2, t3))


def t_struct_init(t1, t2):
    S = {"P": [["c", t1], ["v", t2], ["d", "char"]]}
    body = [DL(["struct", "P"], "p", [V("a"), V("b")]),
            D(["ptr", ["struct", "P"]], "q", ["addr", V("p")]),
            E(A(["arrow", V("q"), "v"], L(3), "add")),
            RET(B("add", B("add", C("llong", ["field", V("p"), "c"]), ["arrow", V("q"), "v"]), ["field", V("p"), "d"]))]
    return entry("stmt/struct-init", prog([func("f", "llong", [("a", "int"), ("b", "int")], body)], structs=S), (t1, t2))


def t_struct_global(t1, t2):
    S = {"P": [["c", t1], ["v", t2]]}
    body = [E(A(["field", V("g"), "v"], ["field", V("g"), "c"], "add")), E(ID("postinc", ["field", V("g"), "c"])),
            RET(B("add", C("llong", ["field", V("g"), "c"]), ["field", V("h"), "v"]))]
    return entry("stmt/struct-global", prog([func("f", "llong", [], body)],
                                            globals_=[("g", ["struct", "P"], None), ("h", ["struct", "P"], [5, 6])],
                                            structs=S), (t1, t2))


def t_ptr_arg(te, ta):
    body = [D(te, "old", ["deref", V("p")]), E(A(["deref", V("p")], B("add", V("old"), V("a")))),
            E(A(IX(V("p"), L(1)), V("old"))), RET(V("old"))]
    return entry("stmt/ptr-arg", prog([func("f", "llong", [("p", ["ptr", te]), ("a", ta)], body)]), (te, ta))


def t_ptr_walk(te):
    body = [D(["ptr", te], "q", V("p")), D("llong", "s", L(0)),
            ["for", D("int", "i", L(0)), B("lt", V("i"), L(2)), ID("postinc", V("i")),
             E(A(V("s"), ["deref", ID("postinc", V("q"))], "add"))],
            E(A(["deref", V("p")], V("s"))),
            RET(B("sub", V("q"), V("p")))]
    return entry("stmt/ptr-walk", prog([func("f", "llong", [("p", ["ptr", te])], body)]), (te,))


def t_ptr_arith(te, ti):
    body = [D(["ptr", te], "q", B("add", V("p"), B("band", V("i"), L(1)))),
            D(["ptr", te], "r", B("sub", B("add", V("p"), L(2)), B("band", V("i"), L(1)))),
            E(A(["deref", V("q")], L(9), "add")),
            RET(B("add", C("llong", ["deref", V("r")]), B("lt", V("q"), V("r"))))]
    return entry("stmt/ptr-arith", prog([func("f", "llong", [("p", ["ptr", te]), ("i", ti)], body)]), (te, ti))


def t_ptr_diff(te, wide):
    # q - p negative: ptrdiff_t is signed
    e = B("sub", V("p"), B("add", V("p"), L(2)))
    body = [RET(B("lt", e, L(0)) if not wide else e)]
    return entry("stmt/ptr-diff", prog([func("f", "llong", [("p", ["ptr", te])], body)]), (te,))


def t_ptr_local(te):
    body = [D(te, "x", V("a")), D(te, "y", L(1)), D(["ptr", te], "q", Q(V("c"), ["addr", V("x")], ["addr", V("y")])),
            E(A(["deref", V("q")], L(5), "add")), RET(B("add", C("llong", V("x")), B("mul", C("llong", V("y")), L(1000))))]
    return entry("stmt/ptr-local", prog([func("f", "llong", [("a", te), ("c", "int")], body)]), (te,))


def t_ptr_global(te):
    body = [D(["ptr", te], "q", ["addr", V("g")]), E(A(["deref", V("q")], V("a"))), E(ID("preinc", ["deref", V("q")])),
            RET(V("g"))]
    return entry("stmt/ptr-global", prog([func("f", "llong", [("a", "int")], body)], globals_=[("g", te, None)]), (te,))


def t_out_param(te):
    fs = [func("set", "void", [("p", ["ptr", te]), ("v", "int")], [E(A(["deref", V("p")], V("v")))]),
          func("f", "llong", [("a", "int")], [D(te, "x", L(1)), E(CALL("set", ["addr", V("x")], V("a"))), RET(V("x"))])]
    return entry("stmt/out-param", prog(fs), (te,))


def t_globals(t1, t2):
    body = [E(A(V("g"), B("add", V("a"), V("h")))), E(A(V("h"), B("bxor", V("g"), L(2)))),
            RET(B("add", C("llong", V("g")), V("h")))]
    return entry("stmt/globals", prog([func("f", "llong", [("a", "int")], body)],
                                      globals_=[("g", t1, None), ("h", t2, 5)]), (t1, t2))


def t_global_neg_init(t1):
    body = [RET(B("add", C("llong", V("g")), V("a")))]
    return entry("stmt/global-init", prog([func("f", "llong", [("a", "int")], body)], globals_=[("g", t1, -3)]), (t1,))


def t_call_conv(tp, tr, ta):
    fs = [func("g", tr, [("x", tp)], [RET(V("x"))]),
          func("f", "llong", [("a", ta)], [RET(CALL("g", V("a")))])]
    return entry("stmt/call-conv", prog(fs), (ta, tp, tr))


def t_call_two(t1):
    fs = [func("sq", t1, [("x", t1)], [RET(B("bxor", V("x"), B("shr", V("x"), L(1))))]),
          func("f", "llong", [("a", t1), ("b", t1)],
               [D("llong", "r", CALL("sq", V("a"))), E(A(V("r"), CALL("sq", V("b")), "add")), RET(V("r"))])]
    return entry("stmt/call-two", prog(fs), (t1,))


def t_recursion(t1):
    fs = [func("r", "int", [("n", t1)], [IF(B("le", V("n"), L(0)), RET(L(0))), RET(B("add", V("n"), CALL("r", B("sub", V("n"), L(1)))))]),
          func("f", "int", [("a", t1)], [RET(CALL("r", B("band", V("a"), L(3))))])]
    return entry("stmt/recursion", prog(fs), (t1,))


def t_extern(tp, tr):
    ex = [("ext1", tr, [tp]), ("ext2", "void", ["int", tp])]
    body = [D("llong", "r", CALL("ext1", V("a"))), E(CALL("ext2", V("b"), V("r"))),
            IF(B("gt", V("r"), V("b")), E(A(V("r"), CALL("ext1", B("sub", V("r"), V("b")))))), RET(V("r"))]
    return entry("stmt/extern", prog([func("f", "llong", [("a", "int"), ("b", "int")], body)], externs=ex), (tp, tr))


def t_extern_order():
    ex = [("ext1", "int", ["int"])]
    body = [D("int", "x", CALL("ext1", V("a"))), D("int", "y", CALL("ext1", B("add", V("a"), L(1)))), RET(B("bxor", V("x"), V("y")))]
    return entry("stmt/extern-order", prog([func("f", "int", [("a", "short")], body)], externs=ex), ())


def t_shortcircuit_fx(op, t1):
    ex = [("ext1", "int", ["int"])]
    body = [D("int", "n", L(0)),
            D("int", "r", B(op, V("a"), B("comma", ID("postinc", V("n")), CALL("ext1", V("b"))))),
            RET(B("add", B("mul", V("r"), L(4)), V("n")))]
    return entry("stmt/shortcircuit", prog([func("f", "int", [("a", t1), ("b", "int")], body)], externs=ex), (t1,))


def t_cond_fx(t1):
    ex = [("ext1", "int", ["int"])]
    body = [D("llong", "r", Q(V("a"), B("comma", A(V("g"), V("b")), L(1)), CALL("ext1", V("b")))), RET(B("add", V("r"), V("g")))]
    return entry("stmt/cond-effects", prog([func("f", "llong", [("a", t1), ("b", "int")], body)], externs=ex,
                                           globals_=[("g", "short", None)]), (t1,))


def t_nested_loops():
    body = [D("int", "s", L(0)),
            ["for", D("int", "i", L(0)), B("lt", V("i"), B("band", V("n"), L(1))), ID("postinc", V("i")),
             ["for", D("int", "j", V("i")), B("lt", V("j"), L(2)), ID("postinc", V("j")),
              E(A(V("s"), B("add", B("mul", V("i"), L(3)), V("j")), "add"))]],
            RET(V("s"))]
    return entry("stmt/nested-loops", prog([func("f", "int", [("n", "int")], body)]), ())


def t_nested_for_init(tj, braces):
    # the inner loop's for-init declaration must be (re-)executed on every iteration of the outer loop, with a value
    # that changes between iterations; the outer loop runs up to 3 times
    inner = ["for", D(tj, "j", V("i")), B("lt", V("j"), L(3)), ID("postinc", V("j")),
             E(A(V("s"), B("add", B("mul", V("i"), L(4)), V("j")), "add"))]
    body = [D("int", "s", L(0)),
            ["for", D("int", "i", L(0)), B("lt", V("i"), B("band", V("n"), L(3))), ID("postinc", V("i")),
             BLK(inner) if braces else inner],
            RET(V("s"))]
    return entry("stmt/nested-for-init" + ("-braces" if braces else ""), prog([func("f", "int", [("n", "int")], body)]), (tj,))


def t_for_init_under(kind, tj):
    # a for statement (with a declaration in its init clause) as the unbraced body of if / while / do / else
    ex = [("ext1", "int", ["int"])]
    loop = ["for", D(tj, "j", B("band", CALL("ext1", V("k")), L(1))), B("lt", V("j"), L(2)), ID("postinc", V("j")),
            E(A(V("s"), B("add", V("j"), L(1)), "add"))]
    if kind == "if":
        st = IF(B("gt", V("n"), L(0)), loop)
        st[2] = loop                               # no braces
    elif kind == "else":
        st = ["if", B("gt", V("n"), L(0)), E(A(V("s"), L(7))), loop]
    elif kind == "while":
        st = ["while", B("lt", V("k"), B("band", V("n"), L(3))), None]
        loop = ["for", D(tj, "j", ID("postinc", V("k"))), B("lt", V("j"), L(3)), ID("postinc", V("j")),
                E(A(V("s"), B("add", V("j"), L(1)), "add"))]
        st[2] = loop
    else:
        loop = ["for", D(tj, "j", ID("postinc", V("k"))), B("lt", V("j"), L(3)), ID("postinc", V("j")),
                E(A(V("s"), B("add", V("j"), L(1)), "add"))]
        st = ["do", loop, B("lt", V("k"), B("band", V("n"), L(3)))]
    body = [D("int", "s", L(0)), D("int", "k", L(0)), st, RET(B("add", B("mul", V("s"), L(8)), V("k")))]
    return entry("stmt/for-init-under-" + kind, prog([func("f", "int", [("n", "int")], body)],
                                                     externs=ex if kind in ("if", "else") else ()), (tj,))


def t_decl_in_loop_body(kind, tx):
    # a declaration with initialiser inside a loop body is initialised on every iteration
    inner = BLK(D(tx, "x", B("add", B("mul", V("i"), L(3)), V("a"))), E(A(V("s"), V("x"), "add")), E(ID("postinc", V("x"))),
                E(A(V("s"), V("x"), "bxor")))
    if kind == "for":
        loop = ["for", D("int", "i", L(0)), B("lt", V("i"), B("band", V("n"), L(3))), ID("postinc", V("i")), inner]
        pre = []
    elif kind == "while":
        inner[1].append(E(ID("postinc", V("i"))))
        loop = ["while", B("lt", V("i"), B("band", V("n"), L(3))), inner]
        pre = [D("int", "i", L(0))]
    else:
        inner[1].append(E(ID("postinc", V("i"))))
        loop = ["do", inner, B("lt", V("i"), B("band", V("n"), L(3)))]
        pre = [D("int", "i", L(0))]
    body = [D("llong", "s", L(0))] + pre + [loop, RET(V("s"))]
    return entry("stmt/decl-in-loop-" + kind, prog([func("f", "llong", [("n", "int"), ("a", "short")], body)]), (tx,))


def t_decl_depth2(tx):
    # declarations with initialisers at nesting depth 2 (inner loop body and inner for-init), braces everywhere
    inner = ["for", D(tx, "j", B("add", V("i"), L(1))), B("lt", V("j"), L(3)), ID("postinc", V("j")),
             BLK(D(tx, "y", B("add", B("mul", V("i"), L(5)), V("j"))), E(A(V("s"), V("y"), "add")))]
    body = [D("int", "s", L(0)),
            ["for", D("int", "i", L(0)), B("lt", V("i"), B("band", V("n"), L(3))), ID("postinc", V("i")),
             BLK(D(tx, "x", B("mul", V("i"), L(2))), inner, E(A(V("s"), V("x"), "add")))],
            RET(V("s"))]
    return entry("stmt/decl-depth2", prog([func("f", "int", [("n", "int")], body)]), (tx,))


def t_array_decl_in_loop(te):
    # an array with initialiser list inside a loop body: all elements re-initialised on every iteration
    body = [D("llong", "s", L(0)),
            ["for", D("int", "i", L(0)), B("lt", V("i"), B("band", V("n"), L(3))), ID("postinc", V("i")),
             BLK(DL(["arr", te, 3], "t", [V("i"), B("add", V("i"), L(1))]), E(A(V("s"), IX(V("t"), B("band", V("i"), L(1))), "add")),
                 E(A(IX(V("t"), L(2)), L(9), "add")), E(A(V("s"), IX(V("t"), L(2)), "add")))],
            RET(V("s"))]
    return entry("stmt/array-decl-in-loop", prog([func("f", "llong", [("n", "int")], body)]), (te,))


def t_compound_fx_index(kind, op, te):
    # compound assignment whose lvalue has a side effect: the lvalue is evaluated ONCE (6.5.16.2p3)
    lv = IX(V("tab"), ID(kind, V("i")))
    body = [D("int", "i", B("add", B("band", V("n"), L(1)), L(1))), E(A(lv, V("v"), op)), RET(V("i"))]
    return entry("stmt/compound-fx-index", prog([func("f", "int", [("n", "int"), ("v", "int")], body)],
                                                globals_=[("tab", ["arr", te, 4], None)]), (te,))


def t_compound_fx_local(kind, op, te):
    lv = IX(V("a"), ID(kind, V("i")))
    body = [DL(["arr", te, 4], "a", [L(1), L(2), L(3), L(4)]), D("int", "i", B("add", B("band", V("n"), L(1)), L(1))),
            D("llong", "r", A(lv, V("v"), op)),
            RET(B("bxor", B("bxor", B("add", B("mul", C("llong", IX(V("a"), L(0))), L(1000)), IX(V("a"), L(1))),
                            B("add", B("mul", C("llong", IX(V("a"), L(2))), L(100000)), IX(V("a"), L(3)))),
                  B("add", B("mul", V("r"), L(7)), V("i"))))]
    return entry("stmt/compound-fx-local", prog([func("f", "llong", [("n", "int"), ("v", "int")], body)]), (te,))


def t_compound_fx_ptr(kind, op, te):
    # *q++ op= v   /   *--q op= v   on the caller's buffer
    lv = ["deref", ID(kind, V("q"))]
    body = [D(["ptr", te], "q", B("add", V("p"), L(1))), E(A(lv, V("v"), op)), RET(B("sub", V("q"), V("p")))]
    return entry("stmt/compound-fx-ptr", prog([func("f", "llong", [("p", ["ptr", te]), ("v", "int")], body)]), (te,))


def t_compound_fx_call(op, te, external):
    # index computed by a call: the call happens once
    if external:
        idx = B("band", CALL("ext1", V("n")), L(3))
        fs, ex, gl = [], [("ext1", "int", ["int"])], [("tab", ["arr", te, 4], None)]
    else:
        idx = CALL("idx")
        fs = [func("idx", "int", [], [RET(B("band", ID("postinc", V("cnt")), L(3)))])]
        ex, gl = [], [("tab", ["arr", te, 4], None), ("cnt", "uint", None)]
    body = [E(A(IX(V("tab"), idx), V("n"), op)), RET(L(0) if external else C("llong", V("cnt")))]
    return entry("stmt/compound-fx-" + ("extern" if external else "call"),
                 prog(fs + [func("f", "llong", [("n", "int")], body)], globals_=gl, externs=ex), (te,))


def t_incdec_fx(kind, kind2, te):
    # ++ / -- applied to an lvalue with a side effect: tab[i++]++
    body = [D("int", "i", B("band", V("n"), L(1))), D("llong", "r", ID(kind2, IX(V("tab"), ID(kind, V("i"))))),
            RET(B("add", B("mul", V("r"), L(4)), V("i")))]
    return entry("stmt/incdec-fx", prog([func("f", "llong", [("n", "int")], body)],
                                        globals_=[("tab", ["arr", te, 4], None)]), (te,))


def t_big_literal(v, suffix):
    body = [RET(B("lt", U("neg", L(v, suffix)), L(0)))]
    return entry("stmt/literal", prog([func("f", "int", [], body)]), (f"{v}{suffix}",))


def t_literal_arith(v, suffix, ta):
    body = [RET(B("add", V("a"), L(v, suffix)))]
    return entry("stmt/literal", prog([func("f", "llong", [("a", ta)], body)]), (f"{v}{suffix}", ta))


def t_sizeof(ts):
    body = [RET(B("lt", B("sub", ["sizeof", ts], L(9)), L(0)))]
    return entry("stmt/sizeof", prog([func("f", "int", [], body)]), (ts,))


def t_sizeof_value(ts):
    S = {"P": [["c", "char"], ["v", ts], ["d", "char"]]}
    body = [RET(B("add", B("mul", ["sizeof", ["struct", "P"]], L(100)), ["sizeof", ["arr", ts, 3]]))]
    return entry("stmt/sizeof", prog([func("f", "llong", [], body)], structs=S), (ts,))


def t_comma_seq(t1):
    body = [D(t1, "x", V("a")), D("llong", "r", B("comma", A(V("x"), L(1), "add"), B("mul", V("x"), L(2)))), RET(V("r"))]
    return entry("stmt/comma", prog([func("f", "llong", [("a", t1)], body)]), (t1,))


def t_narrow_counter(ti):
    # unsigned narrow counter wraps (defined): loop must terminate by the mask, not by the wrap
    body = [D(ti, "i", V("a")), D("int", "n", L(0)),
            ["while", B("ne", B("band", V("i"), L(3)), L(0)), BLK(E(ID("postinc", V("i"))), E(ID("postinc", V("n"))))],
            RET(B("add", B("mul", C("int", V("i")), L(8)), V("n")))]
    return entry("stmt/narrow-counter", prog([func("f", "int", [("a", ti)], body)]), (ti,))


BITS = {"x86_64": (32, 64), "arm": (32, 32), "riscv": (32, 32), "msp430": (16, 32)}     # (int, long) widths


def stmt_family(tier, rnd, march="x86_64"):
    q = tier == "quick"
    int_bits, long_bits = BITS[march]
    out = []
    ints = TYPES
    pick = (lambda xs, n: xs[:2 * n]) if q else (lambda xs, n: xs)
    # control flow
    for ta, tb in pick([("int", "int"), ("uint", "int"), ("short", "ushort"), ("long", "uint"), ("schar", "uchar"), ("ullong", "int")], 3):
        out.append(t_ifelse(ta, tb))
    for ti, tk in pick([("int", "int"), ("uchar", "int"), ("short", "long"), ("uint", "schar"), ("ulong", "int"), ("schar", "schar")], 3):
        out.append(t_while(ti, tk))
    for ti, tn in pick([("int", "int"), ("uchar", "uint"), ("ushort", "long"), ("long", "short"), ("ullong", "int"), ("schar", "int")], 3):
        out.append(t_for(ti, tn))
    for ti in pick(["int", "uchar", "ulong", "short", "uint", "llong"], 2):
        out.append(t_dowhile(ti, False))
        out.append(t_dowhile(ti, True))
        out.append(t_dowhile_break(ti))
    # case constants must be representable in the promoted type of the controlling expression on the target
    big_long = 4294967296 if long_bits == 64 else 2147483647
    big_uint = 4000000000 if int_bits == 32 else 40000
    for tc, cases in pick([("int", [0, 1, 2, 7]), ("long", [0, 1, 2, big_long]), ("char", [0, 1, 2, -1]), ("uint", [0, 1, 2, big_uint]),
                           ("uchar", [0, 1, 2, 200]), ("short", [-2, -1, 0, 5]), ("llong", [0, 1, 2, -4294967296]),
                           ("ulong", [0, 1, 2, 5]), ("ushort", [0, 1, 2, 65535]), ("schar", [-128, 1, 2, 127])], 5):
        out.append(t_switch(tc, cases))
    out.append(t_switch("int", [3, 4, 5, 6], default=False))
    for tc in pick(["int", "uchar", "long", "short"], 2):
        out.append(t_switch_default_first(tc))
        out.append(t_switch_in_loop(tc))
    out.append(t_nested_loops())
    for tj in pick(["int", "uchar", "long", "short"], 1):
        out.append(t_nested_for_init(tj, False))
        out.append(t_nested_for_init(tj, True))
        out.append(t_decl_depth2(tj))
    for kind in ("if", "else", "while", "do"):
        for tj in pick(["int", "short", "ulong"], 1):
            out.append(t_for_init_under(kind, tj))
    for kind in ("for", "while", "do"):
        for tx in pick(["int", "uchar", "long", "ushort"], 1):
            out.append(t_decl_in_loop_body(kind, tx))
    for te in pick(["int", "schar", "ulong"], 1):
        out.append(t_array_decl_in_loop(te))
    for ti in pick(["uchar", "ushort", "uint", "schar"], 2):
        out.append(t_narrow_counter(ti))
    # compound assignment
    cpairs = [("uchar", "int"), ("schar", "uint"), ("short", "long"), ("ushort", "short"), ("int", "llong"), ("uint", "int"),
              ("int", "uint"), ("char", "ulong"), ("long", "uchar"), ("ulong", "int")]
    if q:
        for k, op in enumerate(COMPOUND):
            for j in range(2):
                tx, tb = cpairs[(2 * k + j * 3) % len(cpairs)]
                out.append(t_compound(op, tx, tb))
        out.append(t_compound_value("add", "uchar", "int"))
        out.append(t_compound_value("shr", "short", "uint"))
    else:
        for op in COMPOUND:
            for tx, tb in itertools.product(ints, ints):
                out.append(t_compound(op, tx, tb))
            for tx, tb in cpairs:
                out.append(t_compound_value(op, tx, tb))
    # compound assignment / ++ -- on an lvalue that has a side effect itself (evaluated once)
    fx = [("postinc", "add", "int"), ("preinc", "sub", "char"), ("postdec", "bxor", "uchar"), ("predec", "mul", "short"),
          ("postinc", "shr", "uint"), ("preinc", "bor", "llong"), ("postdec", "add", "ushort"), ("predec", "band", "schar")]
    for kind, op, te in (fx[:4] if q else fx):
        out.append(t_compound_fx_index(kind, op, te))
        out.append(t_compound_fx_ptr(kind, op, te if te not in ("long", "ulong", "llong", "ullong") else "int"))   # 16-byte buffer
    for kind, op, te in (fx[1:3] if q else fx):
        out.append(t_compound_fx_local(kind, op, te))
    for op, te in ([("mul", "int"), ("sub", "uchar")] if q else [("mul", "int"), ("sub", "uchar"), ("bxor", "short"), ("add", "llong"), ("shl", "uint")]):
        out.append(t_compound_fx_call(op, te, False))
        out.append(t_compound_fx_call(op, te, True))
    for kind, kind2, te in ([("postinc", "postinc", "int"), ("predec", "predec", "uchar")] if q else
                            [("postinc", "postinc", "int"), ("predec", "predec", "uchar"), ("postinc", "predec", "short"), ("preinc", "postdec", "llong")]):
        out.append(t_incdec_fx(kind, kind2, te))
    # ++ / --
    for kind in ("preinc", "predec", "postinc", "postdec"):
        for tx in (["schar", "uchar", "ushort", "int", "ulong"] if q else ints):
            if q and (kind, tx) not in (("preinc", "uchar"), ("postinc", "schar"), ("predec", "ushort"), ("postdec", "int"),
                                        ("postinc", "ulong"), ("predec", "uchar"), ("postdec", "schar"), ("preinc", "int")):
                continue
            out.append(t_incdec(kind, tx))
        for tx in pick(["uchar", "short", "uint", "llong"], 1):
            out.append(t_incdec_global(kind, tx))
    for t1, t2 in pick([("uchar", "int"), ("short", "schar"), ("long", "ushort"), ("schar", "uint")], 2):
        out.append(t_assign_chain(t1, t2))
    for t1 in pick(["int", "uchar", "long"], 1):
        out.append(t_comma_seq(t1))
    # arrays, structs, pointers, globals
    for te, ti in pick([("int", "int"), ("uchar", "long"), ("short", "uint"), ("llong", "uchar"), ("ushort", "schar"), ("ulong", "ullong")], 3):
        out.append(t_local_array(te, ti))
        out.append(t_global_array(te, ti))
    for te in pick(["int", "schar", "ushort", "long"], 2):
        out.append(t_array_sum(te))
    for t1, t2, t3 in pick([("int", "char", "short"), ("char", "llong", "uchar"), ("short", "int", "schar"), ("uchar", "ushort", "ulong")], 2):
        out.append(t_struct(t1, t2, t3))
    for t1, t2 in pick([("char", "int"), ("short", "llong"), ("uchar", "ushort"), ("int", "schar")], 2):
        out.append(t_struct_init(t1, t2))
        out.append(t_struct_global(t1, t2))
    for te, ta in pick([("int", "int"), ("uchar", "int"), ("short", "long"), ("ulong", "schar"), ("llong", "uint"), ("ushort", "ushort")], 3):
        out.append(t_ptr_arg(te, ta))
    for te in pick(["int", "char", "short", "llong"], 2):
        out.append(t_ptr_walk(te))
        out.append(t_ptr_local(te))
        out.append(t_ptr_global(te))
        out.append(t_out_param(te))
    for te, ti in pick([("int", "int"), ("char", "uint"), ("short", "long"), ("long", "uchar"), ("int", "ullong"), ("uchar", "schar")], 3):
        out.append(t_ptr_arith(te, ti))
    for te in pick(["int", "char", "llong"], 2):
        out.append(t_ptr_diff(te, False))
        out.append(t_ptr_diff(te, True))
    for t1, t2 in pick([("int", "int"), ("uchar", "short"), ("long", "schar"), ("ushort", "llong"), ("uint", "uchar")], 2):
        out.append(t_globals(t1, t2))
    # negative initialisers for SIGNED types only: `unsigned char g = -3;` is a constant-expression conversion, the
    # domain of C27/C28 (known there: the front end raises struct.error)
    for t1 in pick(["int", "schar", "long", "short", "llong", "char"], 3):
        out.append(t_global_neg_init(t1))
    # calls
    conv = [("uchar", "int", "int"), ("schar", "uint", "int"), ("int", "uchar", "int"), ("short", "ushort", "long"),
            ("uint", "long", "int"), ("long", "int", "llong"), ("ushort", "schar", "uint"), ("llong", "uint", "ulong")]
    if q:
        for tp, tr, ta in conv[:4]:
            out.append(t_call_conv(tp, tr, ta))
    else:
        for tp, tr in itertools.product(ints, ints):
            out.append(t_call_conv(tp, tr, rnd.choice(["int", "llong", "uint"])))
    for t1 in pick(["int", "uchar", "ulong", "short"], 2):
        out.append(t_call_two(t1))
        out.append(t_recursion(t1))
    for tp, tr in pick([("int", "int"), ("uchar", "schar"), ("long", "ushort"), ("short", "uint"), ("ullong", "char")], 2):
        out.append(t_extern(tp, tr))
    out.append(t_extern_order())
    for op in ("land", "lor"):
        for t1 in pick(["int", "long", "uchar"], 2):
            out.append(t_shortcircuit_fx(op, t1))
    for t1 in pick(["int", "llong", "uchar"], 2):
        out.append(t_cond_fx(t1))
    # literals / sizeof
    for v, s in pick([(2147483648, ""), (3000000000, ""), (4294967296, ""), (2147483648, "u"), (5, "ul"), (32768, ""), (40000, ""), (65536, "")], 3):
        out.append(t_big_literal(v, s))
    for v, s, ta in pick([(1, "u", "int"), (1, "l", "uint"), (1, "ul", "int"), (70000, "", "short"), (1, "ll", "ulong")], 2):
        out.append(t_literal_arith(v, s, ta))
    for ts in pick(["int", "long", "char", "short", "llong"], 2):
        out.append(t_sizeof(ts))
        out.append(t_sizeof_value(ts))
    return out


# ---------------------------------------------------------------------------------------------------
def family(tier, seed, march="x86_64", primary=True):
    """list of (family, program, tags) for one target.  thorough: primary=True -> the full matrices,
    primary="wide" -> full binary / conversion / compound-assignment matrices with sampled ?: triples,
    primary=False -> the covering subset"""
    rnd = random.Random(1000003 * seed + 101 + sum(map(ord, march)))
    srnd = random.Random(1000003 * seed + 907 + sum(map(ord, march)))     # statement templates: own stream
    out = []
    if tier == "quick":
        out += bin_family(QUICK_PAIRS, BINOPS)
        out += un_family()
        out += cast_family(QUICK_CAST)
        out += implicit_family(QUICK_CAST[::2])
        out += cond_family(QUICK_COND)
        out += deep_family(rnd, 60)
        out += stmt_family("quick", srnd, march)
    else:
        if primary == "wide":
            out += bin_family(list(itertools.product(TYPES, TYPES)))
            out += un_family()
            out += cast_family(list(itertools.product(TYPES, TYPES)))
            out += implicit_family(QUICK_CAST)
            out += cond_family(QUICK_COND + rnd.sample(list(itertools.product(TYPES, TYPES, TYPES)), 200))
            out += deep_family(rnd, 100)
            out += stmt_family("thorough", srnd, march)
        elif primary:
            out += bin_family(list(itertools.product(TYPES, TYPES)))
            out += un_family()
            out += cast_family(list(itertools.product(TYPES, TYPES)))
            out += implicit_family(list(itertools.product(TYPES, TYPES)))
            out += cond_family(list(itertools.product(TYPES, TYPES, TYPES)))
            out += deep_family(rnd, 300)
            out += stmt_family("thorough", srnd, march)
        else:
            out += bin_family(QUICK_PAIRS, BINOPS)
            out += un_family()
            out += cast_family(QUICK_CAST)
            out += cond_family(QUICK_COND)
            out += deep_family(rnd, 60)
            out += stmt_family("quick", srnd, march)
    return out
