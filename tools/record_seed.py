"""usage: record_seed.py PROP VARIANT caught|missed "<check cmd and what it printed>" """
import json, sys
prop, var, res, txt = sys.argv[1:5]
p = f"/verif/seeded/{prop}/{var}/meta.json"
m = json.load(open(p))
m["check_result"] = res
m["check_detail"] = txt
json.dump(m, open(p, "w"), indent=1)
print(prop, var, res)
