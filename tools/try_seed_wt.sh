#!/bin/sh
# usage: tools/try_seed_wt.sh <patch.diff> <PROP> [tier] [extra check args]
# Applies a seeded change in a throw-away worktree (never touches /repo's working tree), runs the check
# against it via PPCI_REPO, removes the worktree.  Evidence written by this run is NOT to be committed.
set -u
PATCH="$(readlink -f "$1")"; PROP="$2"; TIER="${3:-quick}"; shift; shift; [ $# -gt 0 ] && shift
WT="/tmp/wt-seed-$$"
git -C /repo worktree add --detach "$WT" HEAD >/dev/null 2>&1 || { echo "cannot create worktree"; exit 9; }
# carry over uncommitted changes of /repo (normally none)
( cd "$WT" && git apply --check "$PATCH" && git apply "$PATCH" ) || { echo "PATCH DOES NOT APPLY"; git -C /repo worktree remove --force "$WT"; exit 9; }
cd /verif
cp evidence/$PROP.json /tmp/ev-$$.json 2>/dev/null
PPCI_REPO="$WT" ./check "$PROP" --tier "$TIER" "$@" > /tmp/try_seed.$$.log 2>&1
RC=$?
grep -E "^(VIOLATION|KNOWN-FINDING|HARNESS-ERROR|INCONCLUSIVE)|tier=" /tmp/try_seed.$$.log | cut -c1-400 | head -12
rm -f /tmp/try_seed.$$.log
[ -f /tmp/ev-$$.json ] && mv /tmp/ev-$$.json evidence/$PROP.json
git -C /repo worktree remove --force "$WT"
echo "exit=$RC"
