#!/usr/bin/env python3-vt
"""Cross-check of the manual-derived A32 decoder ref/arm32.py against LLVM's ARM disassembler (llvm-mc).

Development-time validation of the reference model ("validate the translator"); the checks C07/C08 do not
depend on llvm-mc.  For every table entry N random words (condition field random, all other free bits random,
UNPREDICTABLE operand combinations skipped) are disassembled by `llvm-mc --disassemble -triple=armv7a`; the text
is normalised to (mnemonic, S, condition, registers in order, immediates, shift names, '!', post-index, '-',
register-list mask) and compared with the same tuple derived from arm32.decode().

    tools/arm32_llvm_crosscheck.py [N=200] [seed=1]      exit 0: all agree
"""
import os
import re
import sys
import random
import shutil
import subprocess

sys.path.insert(0, os.path.join(os.path.dirname(os.path.abspath(__file__)), ".."))
from ref import arm32 as A      # noqa

M32 = A.M32
REG = {f"r{i}": i for i in range(13)}
REG.update(sp=13, lr=14, pc=15)
SH = ["lsl", "lsr", "asr", "ror", "rrx"]
BASES = list(A.DP) + ["lsl", "lsr", "asr", "ror", "rrx", "adr", "movw", "movt", "mul", "mla", "mls", "umaal", "umull",
                      "umlal", "smull", "smlal", "sdiv", "udiv", "str", "ldr", "strb", "ldrb", "strh", "ldrh", "ldrsb",
                      "ldrsh", "stmda", "ldmda", "stm", "ldm", "stmdb", "ldmdb", "stmib", "ldmib", "push", "pop", "b",
                      "bl", "bx", "blx", "sxtb", "sxth", "uxtb", "uxth", "nop", "yield", "wfe", "wfi", "sev", "svc",
                      "mrs", "msr"]
S_OK = set(A.DP) | {"lsl", "lsr", "asr", "ror", "rrx", "mul", "mla", "umull", "umlal", "smull", "smlal"}
CONDS = {c: i for i, c in enumerate(A.COND_NAMES)}
CONDS.update(A.COND_ALIASES)


def split(mn):
    cands = [(mn, 14)]
    if mn[-2:] in CONDS:
        cands.append((mn[:-2], CONDS[mn[-2:]]))
    for base, cond in cands:
        if base in BASES:
            return base, 0, cond
    for base, cond in cands:
        if base.endswith("s") and base[:-1] in S_OK:
            return base[:-1], 1, cond
    raise ValueError(mn)


def parse_llvm(text, imm_pair):
    mn, _, rest = text.strip().partition("\t")
    base, s, cond = split(mn.strip())
    mask = None
    m = re.search(r"\{([^}]*)\}", rest)
    if m:
        mask = 0
        for r in m.group(1).split(","):
            mask |= 1 << REG[r.strip()]
        rest = rest[:m.start()] + rest[m.end():]
    wb = "!" in rest
    post = bool(re.search(r"\]\s*,", rest))
    toks = re.findall(r"-?#?-?[a-z0-9]+", rest.replace("!", " "))
    regs, imms, shifts, neg = [], [], [], False
    for t in toks:
        if t.lstrip("-") in REG:
            regs.append(REG[t.lstrip("-")])
            neg = neg or t.startswith("-")
        elif t.startswith("#"):
            imms.append(int(t[1:]))
        elif t in SH:
            shifts.append(t)
    if imm_pair and len(imms) == 2:
        v, r = imms
        imms = [((v >> r) | (v << (32 - r))) & M32]
    imms = [i & M32 for i in imms if i != 0]
    return (base, s, cond, regs, imms, shifts, wb, post, neg, mask)


def expected(name, f):
    """the same tuple from the manual-derived decode"""
    base, _, form = name.partition("_")
    cond = f["cond"]
    regs, imms, shifts, wb, post, neg, mask, s = [], [], [], False, False, False, None, f.get("S", 0)

    def shift(stype, samt):
        if (stype, samt) == (A.LSL, 0):
            return
        shifts.append(SH[stype])
        if stype != A.RRX:
            imms.append(samt)
    if base in A.DP and form in ("imm", "reg", "rsr"):
        regs = [f[k] for k in ("rd", "rn") if k in f]
        if base in A.COMPARES:
            s = 0
        if form == "imm":
            imms.append(f["imm"])
        elif form == "reg":
            regs.append(f["rm"])
            if base == "mov":
                if (f["stype"], f["samt"]) != (A.LSL, 0):
                    base = SH[f["stype"]]
                    if f["stype"] != A.RRX:
                        imms.append(f["samt"])
            else:
                shift(f["stype"], f["samt"])
        else:
            regs += [f["rm"], f["rs"]]
            if base == "mov":
                base = SH[f["stype"]]
            else:
                shifts.append(SH[f["stype"]])
    elif name in ("movw", "movt"):
        regs, imms = [f["rd"]], [f["imm"]]
    elif name in ("mul", "sdiv", "udiv"):
        regs = [f["rd"], f["rn"], f["rm"]]
    elif name in ("mla", "mls"):
        regs = [f["rd"], f["rn"], f["rm"], f["ra"]]
    elif name in ("umaal", "umull", "umlal", "smull", "smlal"):
        regs = [f["rdlo"], f["rdhi"], f["rn"], f["rm"]]
    elif base in ("str", "ldr", "strb", "ldrb", "strh", "ldrh", "ldrsb", "ldrsh"):
        regs = [f["rt"], f["rn"]]
        wb, post = bool(f["index"] and f["wback"]), not f["index"]
        if form == "imm":
            imms = [f["imm"]]
        else:
            regs.append(f["rm"])
            neg = not f["add"]
            if "stype" in f:
                shift(f["stype"], f["samt"])
    elif base in ("stmda", "ldmda", "stmia", "ldmia", "stmdb", "ldmdb", "stmib", "ldmib"):
        base = {"stmia": "stm", "ldmia": "ldm"}.get(base, base)
        regs, wb, mask = [f["rn"]], bool(f["wback"]), f["list"]
    elif base in ("push", "pop"):
        mask = f["list"]
    elif base in ("b", "bl") and not form:
        imms = [f["imm"]]
    elif name in ("bx", "blx_reg"):
        base, regs = name.split("_")[0], [f["rm"]]
    elif base in ("sxtb", "sxth", "uxtb", "uxth"):
        regs = [f["rd"], f["rm"]]
        if f["rot"]:
            shifts, imms = ["ror"], [8 * f["rot"]]
    elif name == "svc":
        imms = [f["imm"]]
    elif name == "mrs":
        regs = [f["rd"]]
    elif base == "msr":
        return None
    imms = [i & M32 for i in imms if i != 0]
    return (base, s, cond, regs, imms, shifts, wb, post, neg, mask)


def main(n=200, seed=1, quiet=False):
    if not shutil.which("llvm-mc"):
        print("llvm-mc not available: skipped")
        return 0, 0
    rnd = random.Random(seed)
    words = []
    for (m, v, name, fmt, extra) in A.TABLE:
        k = tries = 0
        while k < n and tries < 50 * n:
            tries += 1
            w = ((rnd.getrandbits(32) & ~m) | v) & 0x0FFFFFFF | rnd.randrange(15) << 28
            d = A.decode(w)
            if d.mnemonic != name or d.operands["unpred"]:
                continue
            k += 1
            words.append((w, name))
    text = "\n".join(" ".join("0x%02x" % ((w >> (8 * i)) & 255) for i in range(4)) for w, _ in words)
    p = subprocess.run(["llvm-mc", "--disassemble", "-triple=armv7a", "-mattr=+hwdiv-arm,+virtualization,+mp",
                        "--show-encoding"], input=text, capture_output=True, text=True, timeout=600)
    byenc = {}
    for ln in p.stdout.split("\n"):
        if "@ encoding:" not in ln:
            continue
        txt, _, enc = ln.partition("@ encoding:")
        bs = [int(x, 16) for x in re.findall(r"0x([0-9a-f]{2})", enc)]
        byenc[sum(b << (8 * i) for i, b in enumerate(bs))] = txt.strip()
    bad = compared = 0
    for w, name in words:
        f = A.decode(w).operands
        exp = expected(name, f)
        if w not in byenc:
            print(f"llvm-mc has no decoding for {w:#010x} ({name})")
            bad += 1
            continue
        if exp is None:
            continue
        try:
            got = parse_llvm(byenc[w], name.endswith("_imm") and name.split("_")[0] in A.DP)
        except Exception as e:      # noqa
            got = ("unparsed", repr(e))
        compared += 1
        if got != exp:
            bad += 1
            if bad < 40:
                print(f"DISAGREE {w:#010x} {name}: llvm '{byenc[w]}' -> {got}\n    manual-derived -> {exp}")
    if not quiet:
        print(f"compared {compared} words of {len(A.TABLE)} table entries with llvm-mc: {bad} disagreements")
    return compared, bad


if __name__ == "__main__":
    a = [int(x) for x in sys.argv[1:]]
    c, b = main(*a)
    sys.exit(1 if b else 0)
