"""Rewrite the seeded-change table in DESIGN.md (between the SEED-TABLE markers) from seeded/*/*/meta.json."""
import json, glob, os, re
rows = []
for f in sorted(glob.glob('/verif/seeded/*/*/meta.json')):
    m = json.load(open(f))
    prop, var = f.split('/')[-3], f.split('/')[-2]
    need = (m.get("needs_to_manifest") or "").replace("\n", " ")
    need = re.sub(r"\s+", " ", need)[:230]
    rows.append(f"| {prop}/{var} | {'yes' if m.get('confirmed') else 'NO'} | {m.get('check_result', 'not run yet')} | {need} | {(m.get('check_detail') or '')[:260]} |")
table = "| seed | confirmed by me (demo passes on the unmodified tree, fails with the patch, 1400 tests still pass) | check result | what it changes / needs to manifest | which check catches it / why not |\n|---|---|---|---|---|\n" + "\n".join(rows)
p = '/verif/DESIGN.md'
s = open(p).read()
a, b = "<!-- SEED-TABLE-BEGIN -->", "<!-- SEED-TABLE-END -->"
if a not in s:
    s += f"\n### 11.3 Seeded changes (independent sub-agents, property text only) and which checks catch them\n\n{a}\n{b}\n"
s = s[:s.index(a) + len(a)] + "\n" + table + "\n" + s[s.index(b):]
open(p, 'w').write(s)
print(len(rows), "seeds")
