"""Confirm a seeded change myself in a scratch worktree and store it under /verif/seeded/<id>/<variant>/.

usage: verify_seed.py <PROP> <VARIANT> <worktree> [<srcdir>]
Checks: patch applies; demo PASSes on the unmodified tree; with the patch the full pinned
test-suite still passes (1400 passed) and the demo FAILs.  Writes meta.json.
"""
import json
import os
import re
import shutil
import subprocess
import sys

prop, variant, wt = sys.argv[1:4]
src = sys.argv[4] if len(sys.argv) > 4 else os.path.join(wt, "_seed", variant)
dst = f"/verif/seeded/{prop}/{variant}"
os.makedirs(dst, exist_ok=True)
for f in os.listdir(src):
    shutil.copy(os.path.join(src, f), dst)
patch = os.path.join(dst, "patch.diff")
demo = os.path.join(dst, "demo.py")


def sh(cmd, **k):
    return subprocess.run(cmd, shell=True, cwd=wt, capture_output=True, text=True, **k)


def run_demo():
    p = sh(f"PYTHONPATH={wt} /venv/bin/python {demo}", timeout=900)
    return p.returncode, (p.stdout + p.stderr)[-300:]


sh("git checkout -- . ")
ran = []
r0 = run_demo()
ran.append(f"demo on unmodified tree: exit {r0[0]}")
a = sh(f"git apply --check {patch}")
assert a.returncode == 0, "patch does not apply: " + a.stderr
sh(f"git apply {patch}")
t = sh("/venv/bin/python -m pytest -q -p no:cacheprovider --timeout=900 -n 6 2>&1 | tail -1", timeout=1800)
tests = t.stdout.strip()
ran.append(f"pinned test-suite with patch: {tests}")
r1 = run_demo()
ran.append(f"demo with patch: exit {r1[0]}")
sh("git checkout -- . ; rm -f oi.html")
ok = r0[0] == 0 and r1[0] != 0 and re.search(r"\b1400 passed", tests) and "failed" not in tests
notes = open(os.path.join(dst, "notes.txt")).read() if os.path.exists(os.path.join(dst, "notes.txt")) else ""
meta = dict(property=prop, variant=variant, confirmed=bool(ok), needs_to_manifest=notes.strip(),
            what_i_ran=ran, demo_unmodified=r0[1].strip()[-120:], demo_patched=r1[1].strip()[-200:])
json.dump(meta, open(os.path.join(dst, "meta.json"), "w"), indent=1)
print(prop, variant, "CONFIRMED" if ok else "NOT CONFIRMED", ran)
