#!/bin/sh
# usage: tools/try_seed.sh <patch.diff> <PROP> [tier]   -- apply a seeded change to /repo, run the check, undo
set -u
PATCH="$1"; PROP="$2"; TIER="${3:-quick}"
cd /repo || exit 9
git apply --check "$PATCH" || { echo "PATCH DOES NOT APPLY"; exit 9; }
git apply "$PATCH"
cd /verif
./check "$PROP" --tier "$TIER" > /tmp/try_seed.$$.log 2>&1
RC=$?
grep -E "^(VIOLATION|KNOWN-FINDING|HARNESS-ERROR|INCONCLUSIVE)|tier=" /tmp/try_seed.$$.log | cut -c1-400 | head -12
rm -f /tmp/try_seed.$$.log
cd /repo && git checkout -- . 
echo "exit=$RC"
