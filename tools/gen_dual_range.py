"""Development-time tool (never run by a check): for every C10 instruction-immediate harness whose only
violations are signed/unsigned aliasing of a k-bit token field, find the set of k on the CURRENT tree,
so that known_findings.json can list the finding per harness with its exact field widths."""
import json, sys, os, multiprocessing as mp
sys.path[:0] = ['/verif', os.environ.get('PPCI_REPO', '/repo')]


def work(job):
    from symx import harness as H
    from props import C10
    name, kw = job
    ks = []
    for _ in range(8):
        h = getattr(C10, name)(**kw)
        known = [H.KnownFinding(dict(id="x", property="C10", what="", harness=h.name,
                                     label="accepted-values-encode-injectively",
                                     region=f"dual_range_ks(v1, v2, {tuple(ks)!r})"))] if ks else []
        h.stop_on_violation = True
        r = H.run_harness(h, known, want_trace=False)
        vs = [v for v in r["violations"] if v["label"] == "accepted-values-encode-injectively"]
        other = [v for v in r["violations"] if v["label"] != "accepted-values-encode-injectively"]
        if r["errors"] or other:
            return (h.name, None, "other")
        if not vs:
            return (h.name, ks, "ok")
        d = vs[0]["inputs"]["v2"] - vs[0]["inputs"]["v1"]
        v1 = vs[0]["inputs"]["v1"]
        if d > 0 and d & (d - 1) == 0 and -(d >> 1) <= v1 < 0:
            ks.append(d.bit_length() - 1)
        else:
            return (h.name, ks, "non-dual")
    return (h.name, ks, "too-many")


if __name__ == "__main__":
    from props import _imm
    js = _imm.jobs(sys.argv[1] if len(sys.argv) > 1 else "thorough")
    with mp.get_context("fork").Pool(8) as pool:
        res = pool.map(work, js, chunksize=1)
    json.dump(res, open("/verif/.scratch/dual_range.json", "w"), indent=0)
    import collections
    c = collections.Counter(r[2] for r in res)
    print(c)
