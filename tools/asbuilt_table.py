"""Rewrite DESIGN.md section 11.4 (between ASBUILT markers) from MANIFEST.json + evidence/*.json + known_findings.json."""
import json, os, collections
M = json.load(open('/verif/MANIFEST.json'))
K = json.load(open('/verif/known_findings.json'))["findings"]
kn = collections.Counter(f["property"] for f in K if f["status"] == "known")
fx = collections.Counter(f["property"] for f in K if f["status"] == "fixed")
rows = []
for c in M["checks"]:
    pid = c["property_id"]
    ev = {}
    p = f'/verif/evidence/{pid}.json'
    if os.path.exists(p):
        ev = json.load(open(p))
    cov = ev.get("coverage", {})
    rows.append(f'| {pid} | {c["level_claimed"]["category"]} | {cov.get("harness_jobs", "?")} | {cov.get("paths_explored", "?")} | '
                f'{cov.get("obligations", "?")} / {cov.get("discharged", "?")} | {cov.get("traces_validated_against_impl", "?")} | '
                f'{ev.get("wall_s", "?")} ({ev.get("tier", "?")}) | {fx.get(pid, 0)} | {kn.get(pid, 0)} |')
table = ("| property | level | jobs | paths | obligations / discharged (known-finding obligations are not discharged) | paths re-run concretely | wall s of the last committed run (tier) | fix: commits | known findings |\n"
         "|---|---|---|---|---|---|---|---|---|\n" + "\n".join(rows))
na = "\n".join(f'* **{n["property_id"]}** — {n["reason"]}' for n in M.get("not_applicable", []))
p = '/verif/DESIGN.md'
s = open(p).read()
a, b = "<!-- ASBUILT-BEGIN -->", "<!-- ASBUILT-END -->"
if a not in s:
    s += f"\n### 11.4 Claimed properties as built (numbers from the committed evidence files)\n\n{a}\n{b}\n"
s = s[:s.index(a) + len(a)] + "\n" + table + "\n\nNot applicable (listed in MANIFEST.not_applicable):\n\n" + na + "\n" + s[s.index(b):]
open(p, 'w').write(s)
print(len(rows), "claimed")
