"""Print the prompt handed to a seeding sub-agent for one property (only the property text + worktree)."""
import json, sys
pid = sys.argv[1]
wt = sys.argv[2]
for l in open('/verif/properties.jsonl'):
    p = json.loads(l)
    if p['id'] == pid:
        break
else:
    raise SystemExit('no such property')
print(f"""You are helping test a verification effort for the open-source project windelbouwman/ppci (a pure-Python compiler infrastructure). You have your own scratch git worktree of the repository at {wt} (a detached checkout of the pinned commit). Work ONLY inside {wt}; never touch /repo or /verif (do not read /verif either).

Here is one semantic property that ppci is supposed to satisfy (JSON record):

{json.dumps(p, indent=1)}

Your task: produce TWO different, realistic changes (bugs a maintainer could plausibly introduce by a refactor, an 'optimisation', an off-by-one, a wrong mask/sign/rounding, a dropped check, a wrong boundary...) to the ppci source under {wt}/ppci that each BREAK this property, while the project still imports/compiles and the existing test-suite still passes completely. The two changes should use different mechanisms / different code sites where possible.

Requirements for each change:
 * It must need something specific to manifest: an unusual input or boundary value, a particular multi-step sequence, a particular combination of operands/addresses/sizes, or two cooperating sites that each look fine alone. NOT something ordinary use would expose at once (the existing tests must not notice it).
 * Keep it small (a few lines), in the non-test source only (do not edit tests).
 * The existing test-suite must pass with the change: run `cd {wt} && /venv/bin/python -m pytest -q -p no:cacheprovider --timeout=900 2>&1 | tail -3` (takes ~10 s; expect `1400 passed, 795 skipped`).
 * Provide a demonstration: a small stand-alone Python script that exits 0 and prints PASS on the unmodified code and exits 1 and prints FAIL on the changed code. It must use only ppci's public behaviour (run with `cd <checkout> && PYTHONPATH=<checkout> /venv/bin/python demo.py`). It must locate ppci via PYTHONPATH/cwd, not a hard-coded path.
 * If the unmodified code ALREADY violates the property for the input you had in mind (ppci has genuine bugs), pick a different region where the unmodified code is correct, so that your demo passes on unmodified code.

Deliverables (write them into the directory {wt}/_seed/ which you create):
   {wt}/_seed/A/patch.diff   (output of `git diff` for change A only, relative to the pinned commit, appliable with `git apply`)
   {wt}/_seed/A/demo.py
   {wt}/_seed/A/notes.txt    (2-5 lines: what the change is, what it needs in order to manifest, why tests miss it)
   {wt}/_seed/B/...          (same for change B)
When finished, leave the worktree source tree itself UNMODIFIED (git checkout -- ppci) so only _seed/ is new. Verify each patch with: git apply --check, apply, run tests, run demo (must FAIL), un-apply, run demo (must PASS).
Your final message should be a short summary: for A and B, the file(s) changed, the triggering condition, and confirmation of the test-suite/demos results. Do not use the network (there is none).""")
