#!/usr/bin/env python3-vt
"""Validation of the C37 oracle (ref/c3sem.py) against gcc on concrete points.  NOT part of the check
(nothing here decides a property); run at framework build time:

    python3-vt tools/c37_gcc_crosscheck.py [n_random_programs] [inputs_per_program] [int_bits]

Every abstract program of the C37 families (corpus/c3progs.py) is rendered to the *equivalent C program*
(C3's typing made explicit: both operands of a binary operator are cast to the common type of rule R2 and
the result is cast back to it; int = intN_t of the target's int width; bool = 0/1), compiled with
`gcc -fwrapv`, run on random arguments / initial global values, and compared with the value c3sem computes
for the same concrete inputs.  Inputs on which c3sem reports undefined behaviour are skipped (the C program
is not run on them)."""
import os
import random
import subprocess
import sys
import tempfile
import z3

sys.path.insert(0, os.path.dirname(os.path.dirname(os.path.abspath(__file__))))
from ref import c3sem          # noqa: E402
from corpus import c3progs     # noqa: E402
from symx import core          # noqa: E402


class CRender:
    def __init__(self, prog, ib):
        self.p = prog
        self.ib = ib
        self.ty = c3sem.Types(ib, prog.get("types", ()))
        self.funcs = {f["name"]: f for f in prog["functions"]}
        self.gl = {n: T for T, n, _ in prog.get("globals", ())}
        self.consts = {n: T for T, n, _ in prog.get("consts", ())}

    def ctype(self, T):
        if isinstance(T, (list, tuple)):
            if T[0] == "ptr":
                return self.ctype(T[1]) + "*"
            if T[0] == "int":
                return f"{'' if T[2] else 'u'}int{T[1]}_t"
            raise ValueError(T)
        r = self.ty.resolve(T)
        if r[0] == "int":
            return f"{'' if r[2] else 'u'}int{r[1]}_t"
        if r[0] == "bool":
            return f"int{self.ib}_t"
        if r[0] == "void":
            return "void"
        if r[0] == "struct":
            return T
        raise ValueError(T)

    def decl(self, T, name):
        r = self.ty.resolve(T)
        if r[0] == "arr":
            return f"{self.ctype(r[1])} {name}[{r[2]}]"
        return f"{self.ctype(T)} {name}"

    # static type of an expression under the C3 rules
    def typeof(self, e, env):
        k = e[0]
        if k in ("lit", "sizeof"):
            return "int"
        if k in ("bool", "cmp", "and", "or", "not"):
            return "bool"
        if k == "var":
            return env[e[1]] if e[1] in env else self.gl[e[1]] if e[1] in self.gl else self.consts[e[1]]
        if k == "bin":
            return self.ty.common(self.typeof(e[2], env), self.typeof(e[3], env))
        if k in ("neg", "pos"):
            return self.typeof(e[1], env)
        if k == "cast":
            return e[1]
        if k == "call":
            return self.funcs[e[1]]["ret"]
        if k == "deref":
            return self.ty.resolve(self.typeof(e[1], env))[1]
        if k == "addr":
            return ["ptr", self.typeof(e[1], env)]
        if k == "field":
            return dict(self.ty.resolve(self.typeof(e[1], env))[1])[e[2]]
        if k == "index":
            return self.ty.resolve(self.typeof(e[1], env))[1]
        raise ValueError(k)

    def ex(self, e, env):
        k = e[0]
        X = lambda x: self.ex(x, env)
        INT = self.ctype("int")
        if k == "lit":
            return f"(({INT}){e[1]})"
        if k == "bool":
            return f"(({INT}){1 if e[1] else 0})"
        if k == "sizeof":
            return f"(({INT})sizeof({self.ctype(e[1])}))"
        if k == "var":
            return e[1]
        if k == "bin":
            T = self.ctype(self.ty.common(self.typeof(e[2], env), self.typeof(e[3], env)))
            return f"(({T})(({T}){X(e[2])} {e[1]} ({T}){X(e[3])}))"
        if k == "cmp":
            ta, tb = self.typeof(e[2], env), self.typeof(e[3], env)
            T = self.ctype(self.ty.common(ta, tb))
            return f"(({INT})(({T}){X(e[2])} {e[1]} ({T}){X(e[3])}))"
        if k == "and":
            return f"(({INT})({X(e[1])} && {X(e[2])}))"
        if k == "or":
            return f"(({INT})({X(e[1])} || {X(e[2])}))"
        if k == "not":
            return f"(({INT})(!{X(e[1])}))"
        if k == "neg":
            T = self.ctype(self.typeof(e[1], env))
            return f"(({T})(-({T}){X(e[1])}))"
        if k == "pos":
            return X(e[1])
        if k == "cast":
            return f"(({self.ctype(e[1])}){X(e[2])})"
        if k == "call":
            f = self.funcs[e[1]]
            return f"{e[1]}_(" + ", ".join(f"({self.ctype(T)}){X(a)}" for (T, _), a in zip(f["params"], e[2])) + ")"
        if k == "deref":
            return f"(*{X(e[1])})"
        if k == "addr":
            return f"(&{X(e[1])})"
        if k == "field":
            return f"{X(e[1])}.{e[2]}"
        if k == "index":
            return f"{X(e[1])}[{X(e[2])}]"
        raise ValueError(k)

    def init(self, T, e, env):
        r = self.ty.resolve(T)
        if e[0] == "list":
            return "{" + ", ".join(self.init(r[1], x, env) for x in e[1]) + "}"
        if e[0] == "named":
            return "{" + ", ".join(f".{f} = {self.init(dict(r[1])[f], x, env)}" for f, x in e[1]) + "}"
        return f"({self.ctype(T)}){self.ex(e, env)}"

    def st(self, s, env, ret, out, ind):
        pad = "  " * ind
        k = s[0]
        X = lambda x: self.ex(x, env)
        if k == "decl":
            env[s[2]] = s[1]
            r = self.ty.resolve(s[1])
            if s[3] is None:
                out.append(f"{pad}{self.decl(s[1], s[2])};")
            else:
                out.append(f"{pad}{self.decl(s[1], s[2])} = {self.init(s[1], s[3], env)};")
        elif k == "assign":
            T = self.ctype(self.typeof(s[2], env))
            lv = X(s[2])
            if s[1] == "=":
                out.append(f"{pad}{lv} = ({T}){X(s[3])};")
            else:
                out.append(f"{pad}{lv} = ({T})(({T}){lv} {s[1][:-1]} ({T}){X(s[3])});")
        elif k == "if":
            out.append(f"{pad}if ({X(s[1])}) {{")
            self.block(s[2], env, ret, out, ind + 1)
            if s[3] is not None:
                out.append(f"{pad}}} else {{")
                self.block(s[3], env, ret, out, ind + 1)
            out.append(f"{pad}}}")
        elif k == "while":
            out.append(f"{pad}while ({X(s[1])}) {{")
            self.block(s[2], env, ret, out, ind + 1)
            out.append(f"{pad}}}")
        elif k == "for":
            tmp = []
            if s[1] is not None:
                self.st(s[1], env, ret, tmp, 0)
            init = tmp[0].rstrip(";") if tmp else ""
            tmp = []
            if s[3] is not None:
                self.st(s[3], env, ret, tmp, 0)
            step = tmp[0].rstrip(";") if tmp else ""
            out.append(f"{pad}for ({init}; {X(s[2])}; {step}) {{")
            self.block(s[4], env, ret, out, ind + 1)
            out.append(f"{pad}}}")
        elif k == "switch":
            out.append(f"{pad}switch (({self.ctype('int')}){X(s[1])}) {{")
            for val, body in s[2]:
                out.append(f"{pad}  " + ("default: {" if val is None else f"case {X(val)}: {{"))
                self.block(body, env, ret, out, ind + 2)
                out.append(f"{pad}  }} break;")
            out.append(f"{pad}}}")
        elif k == "return":
            out.append(f"{pad}return;" if s[1] is None else f"{pad}return ({self.ctype(ret)}){X(s[1])};")
        elif k == "callstmt":
            out.append(f"{pad}{X(['call', s[1], s[2]])};")
        else:
            raise ValueError(k)

    def block(self, stmts, env, ret, out, ind):
        # C3 locals are function-scoped: declarations are hoisted by sharing `env`; C blocks only nest
        for s in stmts:
            self.st(s, env, ret, out, ind)

    def render(self):
        out = ["#include <stdint.h>", "#include <stdio.h>", "#include <stdlib.h>"]
        for name, spec in self.p.get("types", ()):
            out.append("typedef struct { " + " ".join(self.decl(t, f) + ";" for t, f in spec[1]) + f" }} __attribute__((packed)) {name};")
        for T, name, e in self.p.get("consts", ()):
            out.append(f"#define {name} (({self.ctype(T)}){self.ex(e, {})})")
        for T, name, init in self.p.get("globals", ()):
            out.append(f"static {self.decl(T, name)}" + (f" = {self.init(T, init, {})};" if init is not None else ";"))
        for f in self.p["functions"]:
            out.append(f"static {self.ctype(f['ret'])} {f['name']}_(" + ", ".join(self.decl(T, n) for T, n in f["params"]) + ");")
        for f in self.p["functions"]:
            out.append(f"static {self.ctype(f['ret'])} {f['name']}_(" + (", ".join(self.decl(T, n) for T, n in f["params"]) or "void") + ") {")
            env = {n: T for T, n in f["params"]}
            self.block(f["body"], env, f["ret"], out, 1)
            if self.ty.resolve(f["ret"])[0] != "void":
                out.append("  __builtin_trap();")
            out.append("}")
        entry = self.funcs[self.p["entry"]]
        out.append("int main(int argc, char **argv) { int k = 1;")
        for T, n, init in self.p.get("globals", ()):
            if init is not None:
                continue
            r = self.ty.resolve(T)
            if r[0] == "struct":
                continue
            if r[0] == "arr":
                for j in range(r[2]):
                    out.append(f"  {n}[{j}] = ({self.ctype(r[1])})strtoull(argv[k++], 0, 10);")
            else:
                out.append(f"  {n} = ({self.ctype(T)})strtoull(argv[k++], 0, 10);")
        args = []
        for j, (T, n) in enumerate(entry["params"]):
            out.append(f"  {self.ctype(T)} a{j} = ({self.ctype(T)})strtoull(argv[k++], 0, 10);")
            args.append(f"a{j}")
        bits = lambda T: self.ty.bits(T)
        if self.ty.resolve(entry["ret"])[0] == "void":
            out.append(f"  f_({', '.join(args)}); printf(\"none\\n\");")
        else:
            out.append(f"  uint{bits(entry['ret'])}_t r = (uint{bits(entry['ret'])}_t)f_({', '.join(args)}); printf(\"%llu\\n\", (unsigned long long)r);")
        for T, n, _ in self.p.get("globals", ()):
            r = self.ty.resolve(T)
            if r[0] == "struct":
                continue
            if r[0] == "arr":
                for j in range(r[2]):
                    out.append(f"  printf(\"%llu\\n\", (unsigned long long)(uint{bits(r[1])}_t){n}[{j}]);")
            else:
                out.append(f"  printf(\"%llu\\n\", (unsigned long long)(uint{bits(T)}_t){n});")
        out.append("  return 0; }")
        return "\n".join(out) + "\n"


def oracle(prog, ib, gvals, avals):
    ty = c3sem.Types(ib, prog.get("types", ()))

    def term(T, v):
        r = ty.resolve(T)
        if r[0] == "bool":
            return z3.BoolVal(bool(v))
        return z3.BitVecVal(v, r[1])
    ginit = {}
    it = iter(gvals)
    for T, n, init in prog.get("globals", ()):
        if init is not None:
            continue
        r = ty.resolve(T)
        if r[0] == "struct":
            continue
        ginit[n] = [term(r[1], next(it)) for _ in range(r[2])] if r[0] == "arr" else term(T, next(it))
    sem = c3sem.C3Sem(prog, ib, init_globals=ginit, max_steps=20000)
    entry = [f for f in prog["functions"] if f["name"] == prog["entry"]][0]
    r = sem.run(entry["name"], [term(T, v) for (T, _), v in zip(entry["params"], avals)])

    def val(t):
        t = z3.simplify(t)
        if z3.is_true(t):
            return 1
        if z3.is_false(t):
            return 0
        return t.as_long()
    out = ["none" if r is None else str(val(r))]
    for T, n, _ in prog.get("globals", ()):
        v = sem.global_value(n)
        if v is None:
            continue
        out += [str(val(x)) for x in v] if isinstance(v, list) else [str(val(v))]
    return out


def rand_value(rnd, ty, T):
    r = ty.resolve(T)
    if r[0] == "bool":
        return rnd.randint(0, 1)
    n = r[1]
    x = rnd.random()
    if x < 0.35:
        v = rnd.choice([0, 1, 2, 3, 5, 7, 8, 31, 32, 63, 127, 128, 255, 256, (1 << (n - 1)) - 1, 1 << (n - 1), (1 << n) - 1, (1 << n) - 2])
    elif x < 0.6:
        v = rnd.randrange(0, 16)
    else:
        v = rnd.getrandbits(n)
    return v & ((1 << n) - 1)


def main():
    nrand = int(sys.argv[1]) if len(sys.argv) > 1 else 100
    npts = int(sys.argv[2]) if len(sys.argv) > 2 else 12
    ib = int(sys.argv[3]) if len(sys.argv) > 3 else 32
    rnd = random.Random(1)
    progs = c3progs.fixed_programs(ib) + [c3progs.random_program("gcc", k, ib) for k in range(nrand)]
    tmp = tempfile.mkdtemp()
    bad = skipped = pts = 0
    try:
        for p in progs:
            src = CRender(p, ib).render()
            cfile, exe = os.path.join(tmp, "p.c"), os.path.join(tmp, "p")
            open(cfile, "w").write(src)
            c = subprocess.run(["gcc", "-O1", "-fwrapv", "-w", "-o", exe, cfile], capture_output=True, text=True)
            if c.returncode != 0:
                print("GCC-REJECTS", p["id"], c.stderr[:400])
                bad += 1
                continue
            ty = c3sem.Types(ib, p.get("types", ()))
            entry = [f for f in p["functions"] if f["name"] == p["entry"]][0]
            gts = []
            for T, n, init in p.get("globals", ()):
                if init is None and ty.resolve(T)[0] != "struct":
                    r = ty.resolve(T)
                    gts += [r[1]] * r[2] if r[0] == "arr" else [T]
            for _ in range(npts):
                g = [rand_value(rnd, ty, T) for T in gts]
                a = [rand_value(rnd, ty, T) for T, _ in entry["params"]]
                try:
                    want = oracle(p, ib, g, a)
                except (c3sem.Undefined, core.Abort):
                    skipped += 1
                    continue
                r = subprocess.run([exe] + [str(v) for v in g + a], capture_output=True, text=True, timeout=20)
                got = r.stdout.split()
                pts += 1
                if got != want:
                    bad += 1
                    print("MISMATCH", p["id"], "globals", g, "args", a, "gcc", got, "c3sem", want)
                    break
    finally:
        import shutil
        shutil.rmtree(tmp, ignore_errors=True)
    print(f"programs={len(progs)} points={pts} undefined-skipped={skipped} mismatches={bad}")
    return 1 if bad else 0


if __name__ == "__main__":
    sys.exit(main())
