#!/usr/bin/env python3-vt
"""Sanity check of the reference semantics ref/wasmsem.py on concrete points.

Validates the ORACLE (it does not decide any property): instruction results at the boundary values
the WebAssembly specification test suite uses (i32.wast / i64.wast / memory / br_table / call),
written down here from the specification's definitions, are compared with wasmsem in plain-int mode.
Modules are written in the text format and parsed by ppci's parser (input format only).

    PYTHONPATH=/verif:/repo python3-vt tools/wasmsem_selftest.py        exit 0 iff all points agree
"""
import os
import sys
import z3

ROOT = os.path.dirname(os.path.dirname(os.path.abspath(__file__)))
sys.path.insert(0, ROOT)
from ref import wasmsem          # noqa: E402

M32 = (1 << 32) - 1
M64 = (1 << 64) - 1
T = "trap"


def run(src, fn, args):
    from ppci.wasm import Module
    m = Module(src)
    try:
        s = wasmsem.WasmSem(m, max_steps=5000, max_depth=50)
        r = s.invoke(fn, args)
    except wasmsem.Trap:
        return T, None
    return [z3.simplify(x).as_long() for x in r], s


def binop(op, ty, a, b):
    src = f'(module (func (export "f") (param {ty} {ty}) (result {"i32" if op.split("_")[0] in ("eq","ne","lt","gt","le","ge") else ty}) (local.get 0) (local.get 1) ({ty}.{op})))'
    r, _ = run(src, "f", [a, b])
    return r if r == T else r[0]


def unop(op, ty, a, rty=None):
    src = f'(module (func (export "f") (param {ty}) (result {rty or ty}) (local.get 0) ({op})))'
    r, _ = run(src, "f", [a])
    return r if r == T else r[0]


POINTS = [
    # (op, type, a, b, expected)  -- expected as unsigned
    ("add", "i32", 0x7FFFFFFF, 1, 0x80000000), ("add", "i32", M32, 1, 0), ("sub", "i32", 0, 1, M32),
    ("mul", "i32", 0x01234567, 0x76543210, 0x358E7470), ("mul", "i32", 0x80000000, M32, 0x80000000),
    ("div_s", "i32", 7, -2 & M32, -3 & M32), ("div_s", "i32", -7 & M32, 2, -3 & M32), ("div_s", "i32", 1, 0, T),
    ("div_s", "i32", 0x80000000, M32, T), ("div_s", "i32", 0x80000000, 2, 0xC0000000), ("div_s", "i32", 0x80000001, 1000, 0xFFDF3B65),
    ("div_u", "i32", M32, M32, 1), ("div_u", "i32", 0x80000000, M32, 0), ("div_u", "i32", -5 & M32, 2, 0x7FFFFFFD), ("div_u", "i32", 0, 0, T),
    ("rem_s", "i32", 0x80000000, M32, 0), ("rem_s", "i32", -5 & M32, 2, M32), ("rem_s", "i32", 5, -2 & M32, 1), ("rem_s", "i32", 1, 0, T),
    ("rem_s", "i32", 0x80000001, 1000, 0xFFFFFD79),
    ("rem_u", "i32", 0x80000000, M32, 0x80000000), ("rem_u", "i32", -5 & M32, 2, 1), ("rem_u", "i32", 1, 0, T),
    ("shl", "i32", 1, 32, 1), ("shl", "i32", 1, 33, 2), ("shl", "i32", 1, M32, 0x80000000), ("shl", "i32", 0x40000000, 1, 0x80000000),
    ("shr_s", "i32", 0x80000000, 31, M32), ("shr_s", "i32", 0x80000000, 32, 0x80000000), ("shr_s", "i32", 1, 33, 0), ("shr_s", "i32", M32, M32, M32),
    ("shr_u", "i32", 0x80000000, 31, 1), ("shr_u", "i32", M32, 32, M32), ("shr_u", "i32", M32, M32, 1), ("shr_u", "i32", 1, 33, 0),
    ("rotl", "i32", 0xABCD9876, 1, 0x579B30ED), ("rotl", "i32", 0xFE00DC00, 4, 0xE00DC00F), ("rotl", "i32", 1, 32, 1), ("rotl", "i32", 0x80000000, 1, 1),
    ("rotl", "i32", 0x769ABCDF, 0xFFFFFFED, 0x579BEED3),
    ("rotr", "i32", 0xFF00CC00, 1, 0x7F806600), ("rotr", "i32", 1, 1, 0x80000000), ("rotr", "i32", 0xB0C1D2E3, 0xFF05, 0x1D860E97), ("rotr", "i32", 1, 32, 1),
    ("lt_s", "i32", 0x80000000, 0x7FFFFFFF, 1), ("lt_u", "i32", 0x80000000, 0x7FFFFFFF, 0), ("ge_s", "i32", M32, 0, 0), ("ge_u", "i32", M32, 0, 1),
    ("le_s", "i32", 0x80000000, 0x80000000, 1), ("gt_u", "i32", 0, M32, 0), ("gt_s", "i32", 0, M32, 1), ("ne", "i32", 1, 1, 0), ("eq", "i32", M32, M32, 1),
    ("div_s", "i64", 1 << 63, M64, T), ("div_s", "i64", 1 << 63, 2, 0xC000000000000000), ("div_s", "i64", -7 & M64, 2, -3 & M64),
    ("rem_s", "i64", 1 << 63, M64, 0), ("rem_s", "i64", -5 & M64, 2, M64), ("div_u", "i64", -5 & M64, 2, 0x7FFFFFFFFFFFFFFD), ("rem_u", "i64", 7, 0, T),
    ("shl", "i64", 1, 64, 1), ("shl", "i64", 1, 65, 2), ("shr_s", "i64", 1 << 63, 63, M64), ("shr_s", "i64", 1 << 63, 64, 1 << 63), ("shr_u", "i64", M64, 65, M64 >> 1),
    ("rotl", "i64", 0xABCD1234EF567809, 53, 0x013579A2469DEACF), ("rotr", "i64", 0xABCD1234EF567809, 53, 0x6891A77AB3C04D5E), ("rotr", "i64", 1, 1, 1 << 63),
    ("mul", "i64", 0x0123456789ABCDEF, 0xFEDCBA9876543210, 0x2236D88FE5618CF0), ("lt_s", "i64", 1 << 63, 0, 1), ("lt_u", "i64", 1 << 63, 0, 0),
]
UPOINTS = [
    ("i32.clz", "i32", 0, None, 32), ("i32.clz", "i32", 0x00008000, None, 16), ("i32.clz", "i32", M32, None, 0), ("i32.clz", "i32", 1, None, 31),
    ("i32.ctz", "i32", 0, None, 32), ("i32.ctz", "i32", 0x00008000, None, 15), ("i32.ctz", "i32", 0x80000000, None, 31), ("i32.ctz", "i32", M32, None, 0),
    ("i32.popcnt", "i32", M32, None, 32), ("i32.popcnt", "i32", 0xAAAAAAAA, None, 16), ("i32.popcnt", "i32", 0xDEADBEEF, None, 24), ("i32.popcnt", "i32", 0x8000, None, 1),
    ("i32.eqz", "i32", 0, None, 1), ("i32.eqz", "i32", 0x80000000, None, 0),
    ("i32.extend8_s", "i32", 0x80, None, 0xFFFFFF80), ("i32.extend8_s", "i32", 0x7F, None, 0x7F), ("i32.extend8_s", "i32", 0x01234500, None, 0),
    ("i32.extend16_s", "i32", 0x8000, None, 0xFFFF8000), ("i32.extend16_s", "i32", 0xFEDC7FFF, None, 0x7FFF),
    ("i64.clz", "i64", 0, None, 64), ("i64.clz", "i64", 1, None, 63), ("i64.ctz", "i64", 0, None, 64), ("i64.ctz", "i64", 1 << 63, None, 63),
    ("i64.popcnt", "i64", 0xAAAAAAAA55555555, None, 32), ("i64.popcnt", "i64", 0xDEADBEEFDEADBEEF, None, 48),
    ("i64.extend8_s", "i64", 0x80, None, 0xFFFFFFFFFFFFFF80), ("i64.extend16_s", "i64", 0x8000, None, 0xFFFFFFFFFFFF8000),
    ("i64.extend32_s", "i64", 0x80000000, None, 0xFFFFFFFF80000000), ("i64.extend32_s", "i64", 0xFEDCBA987FFFFFFF, None, 0x7FFFFFFF),
    ("i64.eqz", "i64", 1 << 63, "i32", 0), ("i64.eqz", "i64", 0, "i32", 1),
    ("i32.wrap_i64", "i64", 0xFFFFFFF000000001, "i32", 1), ("i32.wrap_i64", "i64", 0x80000000, "i32", 0x80000000),
    ("i64.extend_i32_s", "i32", 0x80000000, "i64", 0xFFFFFFFF80000000), ("i64.extend_i32_u", "i32", 0x80000000, "i64", 0x80000000),
    ("i64.extend_i32_s", "i32", 0x7FFFFFFF, "i64", 0x7FFFFFFF), ("i64.extend_i32_u", "i32", M32, "i64", M32),
]

MEM = """(module (memory 1)
  (data (i32.const 0) "\\01\\02\\03\\04\\05\\06\\07\\f8")
  (func (export "l8s") (param i32) (result i32) (i32.load8_s offset=7 (local.get 0)))
  (func (export "l8u") (param i32) (result i32) (i32.load8_u offset=7 (local.get 0)))
  (func (export "l16s") (param i32) (result i32) (i32.load16_s offset=6 (local.get 0)))
  (func (export "l32") (param i32) (result i32) (i32.load (local.get 0)))
  (func (export "l64") (param i32) (result i64) (i64.load (local.get 0)))
  (func (export "l64_32s") (param i32) (result i64) (i64.load32_s offset=4 (local.get 0)))
  (func (export "l64_32u") (param i32) (result i64) (i64.load32_u offset=4 (local.get 0)))
  (func (export "big") (param i32) (result i32) (i32.load offset=4294967295 (local.get 0)))
  (func (export "st") (param i32 i64) (result i64) (i64.store16 offset=2 (local.get 0) (local.get 1)) (i64.load (i32.const 0)))
  (func (export "st8") (param i32 i32) (result i32) (i32.store8 (local.get 0) (local.get 1)) (i32.load8_u (local.get 0)))
  (func (export "size") (result i32) (memory.size))
)"""
MPOINTS = [("l8s", [0], 0xFFFFFFF8), ("l8u", [0], 0xF8), ("l16s", [0], 0xFFFFF807), ("l32", [0], 0x04030201), ("l32", [4], 0xF8070605),
           ("l64", [0], 0xF807060504030201), ("l64_32s", [0], 0xFFFFFFFFF8070605), ("l64_32u", [0], 0xF8070605),
           ("l32", [65532], 0), ("l32", [65533], T), ("l32", [65536], T), ("l32", [M32], T), ("l32", [0x80000000], T), ("l64", [65528], 0), ("l64", [65529], T),
           ("l8u", [65528], 0), ("l8u", [65529], T), ("l8u", [0xFFFFFFF9], T), ("big", [0], T), ("big", [1], T), ("big", [2], T),
           ("st", [0, 0x1234ABCD], 0xF8070605ABCD0201), ("st", [65532, 1], 0xF807060504030201), ("st", [65533, 1], T), ("st8", [65535, 0x1FF], 0xFF), ("st8", [65536, 1], T),
           ("size", [], 1)]

CTRL = """(module
  (global $g (mut i32) (i32.const 10)) (global $c i64 (i64.const -2))
  (type $ii (func (param i32) (result i32)))
  (table 3 funcref) (elem (i32.const 0) $fac $inc)
  (func $fac (export "fac") (param i32) (result i32) (local i32)
    (local.set 1 (i32.const 1))
    (block $done (loop $l
      (br_if $done (i32.eqz (local.get 0)))
      (local.set 1 (i32.mul (local.get 1) (local.get 0)))
      (local.set 0 (i32.sub (local.get 0) (i32.const 1)))
      (br $l)))
    (local.get 1))
  (func $inc (param i32) (result i32) (i32.add (local.get 0) (i32.const 1)))
  (func $v (param i64) (result i32) (i32.const 9))
  (func (export "sw") (param i32) (result i32)
    (block $d (block $c2 (block $c1 (block $c0
      (br_table $c0 $c1 $c2 $d (local.get 0)))
      (return (i32.const 100))) (return (i32.const 101))) (return (i32.const 102)))
    (i32.const 103))
  (func (export "blk") (param i32) (result i32)
    (block (result i32) (i32.const 1) (br_if 0 (local.get 0)) (drop) (i32.const 2)))
  (func (export "nest") (param i32) (result i32)
    (i32.add (i32.const 1000) (block (result i32)
      (i32.const 7) (i32.const 8)
      (if (result i32) (local.get 0) (then (br 1 (i32.const 5))) (else (i32.const 6)))
      (i32.add) (i32.add))))
  (func (export "sel") (param i32) (result i64) (select (i64.const 1) (global.get $c) (local.get 0)))
  (func (export "glob") (param i32) (result i32) (global.set $g (i32.add (global.get $g) (local.get 0))) (global.get $g))
  (func (export "ci") (param i32 i32) (result i32) (call_indirect (type $ii) (local.get 1) (local.get 0)))
  (func (export "unr") (param i32) (result i32) (if (local.get 0) (then (unreachable))) (i32.const 3))
  (func (export "cl") (param i32) (result i32) (call $inc (call $inc (local.get 0))))
  (func (export "loopres") (param i32) (result i32) (local i32)
    (loop $l (result i32)
      (local.set 1 (i32.add (local.get 1) (i32.const 3)))
      (local.tee 0 (i32.sub (local.get 0) (i32.const 1)))
      (br_if $l)
      (local.get 1)))
)"""
CPOINTS = [("fac", [5], 120), ("fac", [0], 1), ("fac", [13], 1932053504), ("sw", [0], 100), ("sw", [1], 101), ("sw", [2], 102), ("sw", [3], 103),
           ("sw", [M32], 103), ("sw", [4], 103), ("blk", [0], 2), ("blk", [7], 1), ("nest", [1], 1005), ("nest", [0], 1021),
           ("sel", [0], M64 - 1), ("sel", [1 << 31], 1), ("glob", [5], 15), ("ci", [0, 4], 24), ("ci", [1, 4], 5), ("ci", [2, 4], T), ("ci", [3, 4], T),
           ("ci", [M32, 4], T), ("unr", [0], 3), ("unr", [2], T), ("cl", [M32], 1), ("loopres", [3], 9), ("loopres", [1], 3)]


def main():
    bad = 0
    n = 0
    for op, ty, a, b, want in POINTS:
        got = binop(op, ty, a, b)
        n += 1
        if got != want:
            bad += 1
            print(f"MISMATCH {ty}.{op}({a:#x}, {b:#x}) = {got} expected {want}")
    for op, ty, a, rty, want in UPOINTS:
        if rty is None:
            rty = "i32" if op.endswith("eqz") else ty
        got = unop(op, ty, a, rty)
        n += 1
        if got != want:
            bad += 1
            print(f"MISMATCH {op}({a:#x}) = {got} expected {want}")
    for src, pts in ((MEM, MPOINTS), (CTRL, CPOINTS)):
        for fn, args, want in pts:
            r, _ = run(src, fn, args)
            got = r if r == T else r[0]
            n += 1
            if got != want:
                bad += 1
                print(f"MISMATCH {fn}{args} = {got} expected {want}")
    # type mismatch on call_indirect
    r, _ = run(CTRL.replace("(elem (i32.const 0) $fac $inc)", "(elem (i32.const 0) $fac $v)"), "ci", [1, 4])
    n += 1
    if r != T:
        bad += 1
        print("MISMATCH call_indirect with wrong type must trap")
    print(f"{n} points, {bad} mismatches")
    return 1 if bad else 0


if __name__ == "__main__":
    sys.exit(main())
