#!/usr/bin/env python3-vt
"""Cross-check of the reference semantics ref/csem_prog.py against gcc on concrete points (LP64).

Validates the ORACLE and the program generator (it does not decide any property): every program of the C01
family (corpus/c01fam.py) is rendered to C, compiled with `gcc -O0 -fsanitize=undefined` together with a
generated driver (argument vectors, initial bytes of uninitialised globals and of the 16-byte buffers behind
pointer parameters, results of the external functions), executed, and the printed return value, final global /
buffer bytes and external call trace are compared with csem_prog's concrete evaluation.
  * csem says defined  -> gcc's run must not trip UBSan and must print exactly csem's observables
  * csem says undefined -> nothing is compared (gcc may do anything)

    python3-vt tools/csem_prog_selftest.py [quick|thorough] [SEED] [POINTS_PER_PROGRAM] [FILTER]
exit 0 iff all compared points agree.
"""
import os
import sys
import random
import shutil
import subprocess
import tempfile
import multiprocessing as mp

ROOT = os.path.dirname(os.path.dirname(os.path.abspath(__file__)))
sys.path.insert(0, ROOT)
import z3                                   # noqa: E402
from ref import csem_prog as cp             # noqa: E402
from corpus import c01fam                   # noqa: E402

M = cp.LP64
BUF = 16


def rand_int(rnd, t):
    lo, hi = M.lo(t), M.hi(t)
    f = rnd.random()
    if f < 0.3:
        return rnd.choice([lo, hi, 0, 1, 2, 3, hi - 1, lo + 1, -1 if lo < 0 else hi // 2])
    if f < 0.7:
        return max(lo, min(hi, rnd.randrange(-20, 300)))
    return rnd.randrange(lo, hi + 1)


def points(p, rnd, n):
    f = [x for x in p["funcs"] if x[0] == "f"][0]
    sem = cp.CSem(M, p)
    out = []
    for _ in range(n):
        args, bufs = [], {}
        for k, (pn, pt) in enumerate(f[2]):
            pt = cp.T(pt)
            if cp.is_ptr(pt):
                bufs[f"buf{k}"] = [rnd.choice([0, 1, 2, 255, 128, 127, rnd.randrange(256)]) for _ in range(BUF)]
                args.append(f"buf{k}")
            else:
                args.append(rand_int(rnd, pt))
        glob = {}
        for name, t, init in p.get("globals", []):
            if init is None:
                glob[name] = [rnd.choice([0, 1, 255, 128, 127, rnd.randrange(256)]) for _ in range(sem.sizeof(cp.T(t)))]
        ext = [rnd.choice([0, 1, -1, 255, -129, rnd.randrange(-2 ** 63, 2 ** 63)]) for _ in range(4)]
        out.append(dict(args=args, bufs=bufs, glob=glob, ext=ext))
    return out


def uns(t):
    return {"char": "unsigned char", "schar": "unsigned char", "short": "unsigned short", "int": "unsigned",
            "long": "unsigned long", "llong": "unsigned long long"}.get(t, cp.SPELL[t])


def driver(p, pts):
    f = [x for x in p["funcs"] if x[0] == "f"][0]
    rt = cp.T(f[1])
    s = ["#include <stdio.h>\n#include <string.h>\n#include <stdlib.h>\n", cp.render_program(p)]
    s.append("static long long ext_results[4]; static int ext_k;\n")
    for name, ert, pts_ in p.get("externs", []):
        ps = ", ".join(cp.type_text(t, f"p{i}") for i, t in enumerate(pts_)) or "void"
        s.append(f"{cp.type_text(ert)} {name}({ps}) {{ printf(\"T {name}\");")
        for i, t in enumerate(pts_):
            s.append(f" printf(\" %llu\", (unsigned long long)p{i});")
        s.append(" printf(\"\\n\");")
        if ert != "void":
            s.append(f" return ({cp.type_text(ert)})ext_results[ext_k++];")
        s.append(" }\n")
    s.append("static void dump(const char *n, void *q, int k) { unsigned char *c = q; printf(\"M %s\", n); "
             "for (int i = 0; i < k; i++) printf(\" %u\", c[i]); printf(\"\\n\"); }\n")
    s.append("int main(int argc, char **argv) { int k = atoi(argv[1]);\n")
    sem = cp.CSem(M, p)
    for i, pt in enumerate(pts):
        s.append(f" if (k == {i}) {{\n")
        for j, v in enumerate(pt["ext"]):
            s.append(f"  ext_results[{j}] = {v}LL{'' if v != -2**63 else ' - 0'};\n".replace(f"{-2**63}LL", "(-9223372036854775807LL - 1)"))
        for name, bs in pt["glob"].items():
            s.append(f"  {{ unsigned char b[] = {{{', '.join(map(str, bs))}}}; memcpy(&{name}, b, {len(bs)}); }}\n")
        call = []
        for a, (pn, ptype) in zip(pt["args"], f[2]):
            ptype = cp.T(ptype)
            if cp.is_ptr(ptype):
                bs = pt["bufs"][a]
                s.append(f"  static unsigned char {a}[{BUF}] __attribute__((aligned(16))) = {{{', '.join(map(str, bs))}}};\n")
                call.append(f"({cp.type_text(ptype)}){a}")
            else:
                lit = f"{a}" if a >= 0 else f"({a})"
                if a == -2 ** 63:
                    lit = "(-9223372036854775807LL - 1)"
                elif abs(a) > 2 ** 31:
                    lit = (f"{a}ULL" if a > 2 ** 63 - 1 else f"{a}LL") if a >= 0 else f"({a}LL)"
                call.append(f"({cp.type_text(ptype)}){lit}")
        if rt == "void":
            s.append(f"  f({', '.join(call)});\n")
        else:
            s.append(f"  {cp.type_text(rt)} r = f({', '.join(call)}); printf(\"R %llu\\n\", (unsigned long long)({uns(rt)})r);\n")
        for name, t, init in p.get("globals", []):
            s.append(f"  dump(\"{name}\", &{name}, {sem.sizeof(cp.T(t))});\n")
        for a in pt["bufs"]:
            s.append(f"  dump(\"{a}\", {a}, {BUF});\n")
        s.append(" }\n")
    s.append(" return 0; }\n")
    return "".join(s)


def val(t):
    t = z3.simplify(t)
    assert z3.is_bv_value(t), t
    return t.as_long()


def expected(p, pt):
    """csem's observables as the driver prints them, or None if undefined"""
    sem = cp.CSem(M, p, ext_results=pt["ext"], init_globals=pt["glob"], buffers=pt["bufs"], max_iter=200)
    f = [x for x in p["funcs"] if x[0] == "f"][0]
    r = sem.run("f", pt["args"])
    if not z3.is_true(z3.simplify(sem.defined())):
        return None
    lines = []
    for name, args in sem.trace:
        ext = sem.externs[name]
        vs = []
        for a, t in zip(args, ext[2]):
            v = val(a)
            n = M.bits(t)
            if M.signed(t) and v >> (n - 1):
                v -= 1 << n
            vs.append(str(v & (2 ** 64 - 1)))
        lines.append(" ".join(["T", name] + vs))
    if r is not None:
        lines.append(f"R {val(r)}")
    mem = {}
    for name, t, init in p.get("globals", []):
        mem[name] = {k: val(b) for k, b in sem.global_bytes(name)}
    for a in pt["bufs"]:
        mem[a] = {k: val(b) for k, b in enumerate(sem.buffer_bytes(a))}
    return lines, mem


def check_one(job):
    idx, fam, p, tags, seed, npts, tmp = job
    rnd = random.Random(seed * 7919 + idx)
    try:
        cp.check_program(p)
    except cp.Unsupported as e:
        return [f"[{idx}] {fam}: generator produced a program outside the subset: {e}\n{cp.render_program(p)}"], 0, 0
    except BaseException as e:          # noqa
        return [f"[{idx}] {fam}: check_program raised {e!r}"], 0, 0
    pts = points(p, rnd, npts)
    src = driver(p, pts)
    base = os.path.join(tmp, f"p{idx}")
    with open(base + ".c", "w") as fh:
        fh.write(src)
    cc = subprocess.run(["gcc", "-O0", "-w", "-fsanitize=undefined", "-fno-sanitize-recover=all", "-fwrapv-pointer",
                         base + ".c", "-o", base], capture_output=True, text=True)
    if cc.returncode != 0:
        return [f"[{idx}] {fam}: gcc rejects the rendered program:\n{cc.stderr[:800]}\n{cp.render_program(p)}"], 0, 0
    bad = []
    compared = undefined = 0
    for i, pt in enumerate(pts):
        try:
            exp = expected(p, pt)
        except cp.StepLimit:
            continue
        except Exception as e:           # noqa
            bad.append(f"[{idx}] {fam}: csem raised {e!r} on {pt}\n{cp.render_program(p)}")
            continue
        if exp is None:
            undefined += 1
            continue
        try:
            r = subprocess.run([base, str(i)], capture_output=True, text=True, timeout=20)
        except subprocess.TimeoutExpired:
            bad.append(f"[{idx}] {fam}: gcc binary does not terminate on {pt}")
            continue
        compared += 1
        if r.returncode != 0 or "runtime error" in r.stderr:
            bad.append(f"[{idx}] {fam}: csem says defined, UBSan/gcc run says: rc={r.returncode} {r.stderr.strip()[:300]}\n"
                       f"point {pt}\n{cp.render_program(p)}")
            continue
        lines, mem = exp
        got_lines = [ln for ln in r.stdout.splitlines() if ln[:2] in ("T ", "R ")]
        got_mem = {}
        for ln in r.stdout.splitlines():
            if ln.startswith("M "):
                parts = ln.split()
                got_mem[parts[1]] = [int(x) for x in parts[2:]]
        ok = got_lines == lines
        for name, bs in mem.items():
            for k, v in bs.items():
                if got_mem.get(name, [None] * (k + 1))[k] != v:
                    ok = False
        if not ok:
            bad.append(f"[{idx}] {fam}: MISMATCH at point {pt}\n csem: {lines} {mem}\n gcc : {got_lines} {got_mem}\n{cp.render_program(p)}")
    return bad, compared, undefined


def main():
    tier = sys.argv[1] if len(sys.argv) > 1 else "quick"
    seed = int(sys.argv[2]) if len(sys.argv) > 2 else 1
    npts = int(sys.argv[3]) if len(sys.argv) > 3 else 6
    flt = sys.argv[4] if len(sys.argv) > 4 else ""
    fam = c01fam.family(tier, seed, "x86_64")
    if flt:
        fam = [x for x in fam if flt in x[0] or flt in cp.render_program(x[1])]
    tmp = tempfile.mkdtemp(prefix="csemprog")
    jobs = [(i, f, p, tags, seed, npts, tmp) for i, (f, p, tags) in enumerate(fam)]
    bad = []
    compared = undefined = 0
    try:
        # processes, not threads: the z3 default context is not thread-safe
        with mp.get_context("fork").Pool(int(os.environ.get("VERIF_NPROC", "6"))) as pool:
            for b, c, u in pool.imap_unordered(check_one, jobs, chunksize=4):
                bad += b
                compared += c
                undefined += u
    finally:
        shutil.rmtree(tmp, ignore_errors=True)
    for b in bad[:40]:
        print(b)
        print("-" * 70)
    print(f"programs={len(fam)} points compared={compared} undefined(skipped)={undefined} disagreements={len(bad)}")
    return 1 if bad else 0


if __name__ == "__main__":
    sys.exit(main())
