#!/usr/bin/env python3-vt
"""Cross-check of the reference semantics ref/csem.py against gcc on concrete points.

Validates the ORACLE (it does not decide any property): random expression trees of the C27/C26 template
grammar with random literal values are evaluated by csem (plain-int mode) and by gcc
  * as initialisers of globals of every integer type (LP64 data model), value printed by the program;
  * as `#if` controlling expressions (gcc -E), branch taken.
Only points csem reports as defined are compared (gcc rejects or warns about the others).

    python3-vt tools/csem_selftest.py [N] [SEED]       exit 0 iff all compared points agree
"""
import os
import sys
import random
import subprocess
import tempfile

ROOT = os.path.dirname(os.path.dirname(os.path.abspath(__file__)))
sys.path.insert(0, ROOT)
from ref import csem          # noqa: E402

SUF = ["", "u", "l", "ul", "ll", "ull"]
BIN = list(csem.BINOPS)
UN = list(csem.UNOPS)
DESTS = list(csem.TYPES)


def rand_value(rnd, hi):
    k = rnd.random()
    if k < 0.25:
        return rnd.choice([0, 1, 2, 3, 7, hi, hi - 1, hi // 2, hi // 2 + 1])
    if k < 0.6:
        return rnd.randrange(0, min(hi, 300) + 1)
    return rnd.randrange(0, hi + 1)


def rand_expr(rnd, depth, lits, dm, pp):
    if depth == 0 or rnd.random() < 0.15:
        s = rnd.choice(["", "u"] if pp else SUF)
        lits.append(s)
        e = ["lit", len(lits) - 1, s]
        f = rnd.random()
        if f < 0.25:
            return ["neg", e]
        if f < 0.4 and not pp:
            return ["cast", rnd.choice(DESTS), e]
        return e
    f = rnd.random()
    if f < 0.7:
        return [rnd.choice(BIN), rand_expr(rnd, depth - 1, lits, dm, pp), rand_expr(rnd, depth - 1, lits, dm, pp)]
    if f < 0.82:
        return [rnd.choice(UN), rand_expr(rnd, depth - 1, lits, dm, pp)]
    if f < 0.9 and not pp:
        return ["cast", rnd.choice(DESTS), rand_expr(rnd, depth - 1, lits, dm, pp)]
    return ["cond", rand_expr(rnd, depth - 1, lits, dm, pp), rand_expr(rnd, depth - 1, lits, dm, pp),
            rand_expr(rnd, depth - 1, lits, dm, pp)]


def gen(rnd, dm, pp, n):
    out = []
    while len(out) < n:
        lits = []
        e = rand_expr(rnd, rnd.choice([1, 2, 2, 3]), lits, dm, pp)
        shifty = csem.shift_count_literals(e)
        vals = []
        for i, s in enumerate(lits):
            hi = dm.hi(csem.SUFFIX_TYPE[s])
            vals.append(rand_value(rnd, 70 if i in shifty else hi))
        dest = rnd.choice(DESTS)
        E = csem.Eval(dm, vals)
        v, t = E.ev(e)
        if not E.defined:
            continue
        if not (E.flags["wrap"] or E.flags["overflow"]):
            # identity used by the symbolic oracle for / and %: with no reduction anywhere, C value == exact integer value
            assert E.exact(e) == v, ("exact() differs", e, vals, v, E.exact(e))
        if pp:
            out.append((e, vals, None, int(v != 0)))
        else:
            out.append((e, vals, dest, E.conv(v, dest)))
    return out


def check_c(points):
    dm = csem.LP64
    lines = ["#include <stdio.h>"]
    for k, (e, vals, dest, exp) in enumerate(points):
        txt = csem.render(e, lambda i, s: f"{vals[i]}{s}")
        lines.append(f"{csem.SPELL[dest]} g{k} = {txt};")
    lines.append("int main(void) {")
    for k, (e, vals, dest, exp) in enumerate(points):
        if dm.signed(dest):
            lines.append(f'  printf("%lld\\n", (long long)g{k});')
        else:
            lines.append(f'  printf("%llu\\n", (unsigned long long)g{k});')
    lines.append("  return 0; }")
    d = tempfile.mkdtemp()
    try:
        src = os.path.join(d, "t.c")
        exe = os.path.join(d, "t")
        open(src, "w").write("\n".join(lines) + "\n")
        p = subprocess.run(["gcc", "-std=c11", "-w", "-fsigned-char", "-O0", "-o", exe, src], capture_output=True, text=True)
        if p.returncode:
            print(p.stderr[:3000])
            raise SystemExit("gcc failed on the generated program")
        got = [int(x) for x in subprocess.run([exe], capture_output=True, text=True).stdout.split()]
    finally:
        subprocess.run(["rm", "-rf", d])
    bad = 0
    for (e, vals, dest, exp), g in zip(points, got):
        if g != exp:
            bad += 1
            print("MISMATCH C:", csem.SPELL[dest], "<-", csem.render(e, lambda i, s: f"{vals[i]}{s}"), "csem", exp, "gcc", g)
    return bad


def check_pp(points):
    lines = []
    for k, (e, vals, _, exp) in enumerate(points):
        txt = csem.render(e, lambda i, s: f"{vals[i]}{s}")
        lines += [f"#if {txt}", f"R{k}=1", "#else", f"R{k}=0", "#endif"]
    p = subprocess.run(["gcc", "-E", "-P", "-w", "-x", "c", "-"], input="\n".join(lines) + "\n", capture_output=True, text=True)
    if p.returncode:
        print(p.stderr[:3000])
        raise SystemExit("gcc -E failed")
    got = {}
    for ln in p.stdout.split():
        if ln.startswith("R") and "=" in ln:
            a, b = ln[1:].split("=")
            got[int(a)] = int(b)
    bad = 0
    for k, (e, vals, _, exp) in enumerate(points):
        if got.get(k) != exp:
            bad += 1
            print("MISMATCH #if:", csem.render(e, lambda i, s: f"{vals[i]}{s}"), "csem", exp, "gcc", got.get(k))
    return bad


def main():
    n = int(sys.argv[1]) if len(sys.argv) > 1 else 3000
    seed = int(sys.argv[2]) if len(sys.argv) > 2 else 0
    rnd = random.Random(seed)
    bad = 0
    for chunk in range(0, n, 1000):
        bad += check_c(gen(rnd, csem.LP64, False, min(1000, n - chunk)))
        bad += check_pp(gen(rnd, csem.PP, True, min(1000, n - chunk)))
    print(f"csem self-test: {2 * n} defined points compared with gcc, {bad} mismatches")
    sys.exit(1 if bad else 0)


if __name__ == "__main__":
    main()
