"""Rewrite DESIGN.md 11.2 tables (between FINDINGS markers) from known_findings.json."""
import json, collections
K = json.load(open('/verif/known_findings.json'))["findings"]
fixed = [f for f in K if f["status"] == "fixed"]
known = [f for f in K if f["status"] == "known"]
# one row per fix commit
by_commit = collections.OrderedDict()
for f in fixed:
    by_commit.setdefault(f["commit"], []).append(f)
rows = []
for cm, fs in by_commit.items():
    props = ",".join(sorted({f["property"] for f in fs}))
    what = fs[0]["what"].split(" ", 3)[3] if fs[0]["what"].startswith("fixed:") else fs[0]["what"]
    rows.append(f"| `{cm}` | {props} | {what[:300]} |")
t1 = "| fix commit in /repo | property | what failed |\n|---|---|---|\n" + "\n".join(rows)
rows = []
for f in known:
    h = f["harness"] if isinstance(f["harness"], str) else f"{len(f['harness'])} harnesses, e.g. {f['harness'][0]}"
    rows.append(f"| {f['id']} | {f['property']} | {h[:70]} | `{str(f.get('region', 'True'))[:80]}` | {f['what'][:260]} |")
t2 = "| known finding | property | harness (call site) | region | what fails |\n|---|---|---|---|---|\n" + "\n".join(rows)
p = '/verif/DESIGN.md'
s = open(p).read()
a, b = "<!-- FINDINGS-BEGIN -->", "<!-- FINDINGS-END -->"
if a not in s:
    marker = "### 11.2b"
    s = s.replace(marker, f"#### Generated from known_findings.json\n\n{a}\n{b}\n\n" + marker, 1)
body = f"\n**Repaired ({len(by_commit)} `fix:` commits):**\n\n{t1}\n\n**Recorded, not repaired ({len(known)} known findings):**\n\n{t2}\n"
s = s[:s.index(a) + len(a)] + body + s[s.index(b):]
open(p, 'w').write(s)
print(len(by_commit), "fix commits;", len(known), "known findings")
