"""Regenerates /verif/MANIFEST.json from the tables below (keeps it schema-valid at all times)."""
import json
import os

ROOT = os.path.dirname(os.path.dirname(os.path.abspath(__file__)))

TECH = "bounded symbolic execution of the real ppci functions on z3 bit-vector proxies (symx), obligations decided by z3/cvc5, every path validated and every counterexample replayed concretely"

CLAIMED = {
    "C39": dict(
        level="model_checking", design="§4 C39",
        text="All paths of the real bit helpers (bitfun + wasm runtime integer wrappers) are executed symbolically for every value of each width and every rotation count; each path's result is proven equal to an independent definition by z3. Bounded: widths 1..64 (quick: 9 representative widths).",
        note="Trusted: z3, the reference definitions in ref/bits.py, the proxy engine (cross-checked on every path against a concrete shim-free run of the real function). popcnt at widths > 12 is checked on the if-converted real source. Not claimed: widths above 64, float helpers.",
        technique=TECH),
}

CLAIMED["C20"] = dict(
    level="model_checking", design="§4 C20",
    text="All paths of the four real LEB128 functions for every integer of magnitude < 2**63 (thorough 2**128) and, for the decoders, every byte buffer up to 10 (19) bytes incl. non-canonical encodings; z3 proves per path: denoted value, continuation bits, minimal length, exact consumption, round trip, rejection of negatives.",
    note="Trusted: z3, the closed-form LEB128 definition in props/C20.py, the proxy engine (each path cross-checked against a concrete shim-free run). Integers beyond the bound are outside the claim.",
    technique=TECH)

CLAIMED["C10"] = dict(
    level="model_checking", design="§4 C10",
    text="Real encode()/Relocation.apply() code executed on symbolic operands: (1) wrap_negative/inrange primitives for every value; (2) every claimed relocation type of riscv, rvc, arm, thumb, x86_64, avr, msp430, mcs6500, or1k, mips, microblaze, xtensa, m68k + generic data relocations applied with symbolic symbol address, field address (all 32/48/64-bit values) and addend: error, or the field decoded per the ISA manual designates exactly S+A(-P) and no other bit changes; (3) every instruction class with an integer operand (quick: riscv, rvc, arm, thumb; thorough: all 12 ISAs): over all pairs of operand values in +-2**40 accepted by encode(), encodings differ (no truncation/aliasing) and the operand is not rewritten.",
    note="Trusted: z3/cvc5, ref/relocspec.py (field layouts from the ISA manuals), the proxy engine (every path cross-checked concretely). Layer 3 is spec-free (injectivity), so a wrong-but-injective field layout is C08's business. Genuine defects of the unchanged tree are listed per call site in known_findings.json (regions proven tight by the solver: a violation outside them is still reported). Not claimed: operands through the assembler text path; relocation types without a relocspec entry.",
    technique=TECH)

CLAIMED["C11"] = dict(
    level="model_checking", design="§4 C11",
    text="The REAL linker (link/merge/layout/do_relocations/get_symbol_id_value) runs on an object holding one relocated instruction (base encoding from the real instruction class) and its target symbol, under a layout whose memory base addresses, symbol offset, addend and surrounding bytes are symbolic; for every claimed relocation type of riscv, rvc, arm, thumb, x86_64, avr, msp430, mcs6500, or1k, mips, microblaze, xtensa, m68k (+ generic data relocations), in two placements: the link fails, or the symbol table value is section address + offset, the field decoded per the ISA manual designates exactly S+A (or S+A-P), no other bit or byte changes; RISC-V hi/lo pairs are checked jointly.",
    note="Trusted: z3/cvc5, ref/relocspec.py, the proxy engine (every path re-run concretely). Bounded: 32-bit (x86_64 47-bit) 4-aligned bases, offsets < 2**20. Known findings (signed fields accepting the unsigned upper half, thumb BL/B<c>.W range) are listed per relocation type with solver-checked tight regions. Not claimed: other ISAs, relaxable jumps (C13), multi-object placement (C12), addends ignored by the relocation class.",
    technique=TECH)
CLAIMED["C08"] = dict(
    level="model_checking", design="§4 C08",
    text="Model checking of the real encoders of eleven instruction sets (RISC-V, ARM A32, ARM Thumb, x86-64 subset, MIPS32, MSP430, AVR, OpenRISC 1000, MicroBlaze, M68000, Xtensa). AVR (55 classes), or1k (57 classes x immediate constructors), MicroBlaze (107 classes + 9 label macros), m68k (42 classes x every <ea> constructor) and Xtensa (55 classes) follow the same scheme with decoders ref/avrdec.py, ref/or1kdec.py, ref/microblazedec.py, ref/m68kdec.py, ref/xtensadec.py written from the respective architecture manuals. Thumb (54 classes: 16-bit set + bl, b.w, b<c>.w, sdiv, udiv, mul), MIPS32 (37 classes) and MSP430 (41 classes x 8 source x 3 destination addressing-mode constructors, 6 pseudo-instructions) follow the same scheme with the decoders ref/thumbdec.py (ARMv7-M ARM DDI 0403E), ref/mipsdec.py (MIPS32 AFP vol. II) and ref/msp430dec.py (SLAU049/SLAU144 ch. 3). RISC-V (RV32IM+Zicsr+C) and ARM A32: every instruction class of the riscv, riscv:rvc and arm ISA objects is built with fully symbolic operands (register numbers, immediates wider than any field, shift suffix and amount, register lists, label distance through the real relocation; rendered pseudo-instructions such as li are executed as a sequence) and the real encode() output must decode, via manual-derived decoders (ref/rv32.py, ref/arm32.py), to the printed mnemonic incl. condition suffix and exactly the printed operands, for all operands in the manuals' documented ranges. x86_64: the integer operand-encoding layer (REX, ModRM, SIB, disp8/disp32, immediates) of every integer instruction class x every operand constructor it accepts, with all registers, displacements and immediates symbolic, decoded by an SDM-derived decoder (ref/x86dec.py).",
    note="Trusted: z3, the eleven reference decoders (self-validated on every run: table disjointness, the repo's own assembler byte strings, solver proof that independent field-slicing variants agree, llvm-mc / GNU objdump cross-checks on random words where installed - never the deciding step), the proxy engine. Known findings: RVC 3-bit register fields aliasing x4..x7, ignored rs operands, reserved encodings; x86 AH..BH with REX. Outside: the other nine ISAs, Thumb, VFP/NEON/coprocessor, SSE2/x87, F/D extensions, out-of-range operands (C10), UNPREDICTABLE combinations, hi/lo relocated fields (C10/C11).",
    technique=TECH)
CLAIMED["C07"] = dict(
    level="model_checking", design="§4 C07",
    text="RISC-V and ARM A32. The same symbolic encodings as under C08 are executed by manual-derived single-step semantics (RV32IMC; ARM A32 with NZCV flags, shifter carry-out, PC reads as address+8, interworking PC writes) from a fully symbolic machine state. Frame: only defined_registers (as the real class declares them, plus clobbers) change. Non-interference: a second state agreeing on used_registers, pc, sp, memory (and on ARM the incoming flags) and arbitrary elsewhere yields the same defined registers, memory, next pc and (ARM) new flags.",
    note="Trusted: z3, ref/rv32.py and ref/arm32.py (validated as under C08; integer vs z3 back ends cross-run), the proxy engine. ARM CPSR flags are implicit state (ppci declares no flag register): flag changes are outside the frame claim but must depend only on declared reads. Known findings: RVC undeclared link/sp writes and shift/andi rd reads; ARM bl/blx lr, push/pop list registers and sp not declared. Outside: other ISAs, Thumb, CSR/system, F/D, coprocessor, per-call extra_uses/clobbers, UNPREDICTABLE cases.",
    technique=TECH)

TECH_ENUM = "bounded symbolic execution of the real ppci code (symx) where the only symbolic inputs are the graph/grammar-shaped ones; the code's own traversal forks on what it inspects, the solver discharges the oracle formula over everything it did not inspect; every path validated concretely"
CLAIMED["C34"] = dict(
    level="model_checking", design="§4 C34",
    text="Bounded symbolic execution of ppci's real Project/Target/TaskRunner code over a symbolic dependency graph (one boolean per ordered pair incl. self-dependencies) and request set: all labelled graphs on <=4 (quick) / <=5 (thorough) targets. Loop reporting is proved equivalent to a reachable cycle; the recorded execution is proved to run each needed target exactly once and after all its dependencies; Project.dependencies equals the transitive closure.",
    note="Degenerates, honestly, to solver-driven bounded-exhaustive graph enumeration: the code's traversal decides which edges are inspected, the solver covers the rest. Set-iteration orders are those of PYTHONHASHSEED=0 (other orders only up to relabelling). Oracle: ref/domdef.py cycle/closure predicates. n>=6 outside.",
    technique=TECH_ENUM)
CLAIMED["C25"] = dict(
    level="model_checking", design="§4 C25",
    text="The real Lengauer-Tarjan, dominator-tree/interval, dominance-frontier, reachability, post-dominator and fixed-point implementations (and CfgInfo on real IR) run on every labelled digraph whose nodes are all reachable from the entry (edge booleans symbolic, reachability premise via assume) and are compared with path-based definitions (ref/domdef.py) as solver obligations. Quick: n<=4; thorough: n<=4 with self loops, n=5 without (time-boxed per job, exhaustive only where the queue drains).",
    note="Solver-driven bounded-exhaustive enumeration; edge booleans are the only symbolic inputs. Set-iteration order fixed by an index-hash node subclass. Post-dominance assumes a sink exit reachable from every node. Outside: n>=6, unreachable nodes, calculate_loops/relooper.",
    technique=TECH_ENUM)
CLAIMED["C32"] = dict(
    level="model_checking", design="§4 C32",
    text="For every grammar of a bounded family (<=3 productions exhaustively for RHS<=2, seeded samples up to 4 productions / RHS<=3; 2 terminals, 2 non-terminals, epsilon allowed) the real LrParserBuilder tables are built and the real LrParser.parse runs on a SYMBOLIC token sequence (symbolic length 0..5/6, symbolic kinds). For conflict-free grammars the solver proves per path: accept <=> membership (independent chart recogniser ref/cyk.py, incl. 'no completion of a rejected prefix is in the language' as one query), the returned value is the derivation tree of the consumed tokens, the parse ends only by value or ParserException. For silently resolved shift/reduce conflicts: accepted => member.",
    note="Bounded model checking over all token sequences up to the length bound per enumerated grammar; the 3-/4-production space is sampled, not exhaustive. Grammars rejected with ParserGenerationException are counted and skipped (builder completeness not claimed). Earley parser not covered. Builder set-iteration nondeterminism: one build per harness.",
    technique=TECH_ENUM)

CLAIMED["C14"] = dict(
    level="model_checking", design="§4 C14",
    text="All paths of ppci's real object/archive save and load code (ObjectFile.save/load, serialize/deserialize, Archive.save/load, debug-info serializer, bin2asc/asc2bin, make_num) run with every numeric field (addresses, alignment, symbol value/size/id, relocation offset/addend incl. negatives, image address, entry id, all debug-info integers; |v| < 2**64 quick / 2**128 thorough) and every data byte symbolic. z3 proves per path that the reloaded object equals the original field by field, incl. entry point, debug info, arch and lookup tables that ObjectFile.__eq__ ignores, that __eq__ holds, and that linking the reloaded objects/archive gives a byte-identical result. Shapes enumerated: 0-3 sections, data lengths on both sides of the 30-byte text switch, symbol/relocation/image variants, debug graphs, archives of 0-3 objects.",
    note="Trusted: z3, the field inventory ref/objsnap.py, hex/int(.,16)/binascii/json contracts (one concrete model per path goes through the real json/hex/binascii unshimmed and must agree), the proxy engine. hex() has variable length: fields of one object are combined along 1-3 diagonals of sign/digit-count classes plus selected pairs, not the full class product. Names are concrete samples. Relinking checked for x86_64 rel32/absaddr32 only.",
    technique=TECH)
CLAIMED["C35"] = dict(
    level="model_checking", design="§4 C35",
    text="All paths of the real RSP sender and receiver (RspHandler sendpkt/send/_process_byte/decodepkt/rsp_pack/rsp_unpack, decoder(), transport.TCP.recv_thread/recv/send over a fake socket) for every payload of 0..4 (thorough 0..6) 7-bit characters incl. $ # } * ' and every chunking of the byte stream (symbolic chunk boundaries): the wire frame conforms to the GDB manual (escaping, checksum), exactly one delivery equal to the payload, exactly one '+'; any single corrupted checksum digit or data byte giving a bad checksum is nacked, not delivered, retransmitted once. For every ack/nack/timeout sequence and retry budget 1..10: transmissions = 1 + min(nacks, budget), return iff acked, ValueError iff budget exhausted. Arbitrary 7-bit byte streams <= 6 (7) bytes agree with a reference receiver; notifications interleaved with acks/nacks are delivered exactly once in order.",
    note="Trusted: z3, the transcription of the GDB manual in ref/rsp.py, the proxy engine (every path cross-checked concretely on the unmodified code), the source-level f-string conversion of rsp_pack (symx/fstr.py), an exhaustively validated int(s,16) model. The fake socket and the single-threaded queue model (unsatisfiable wait = timeout) are assumptions; real thread interleavings, queue.Queue blocking, stale/duplicate acks, run-length encoding and longer payloads are outside the claim.",
    technique=TECH)

CLAIMED["C31"] = dict(
    level="model_checking", design="§4 C31",
    text="For every enumerated expression in the supported syntax ('' + all ASTs of size <=3 (thorough <=4) over 5 atoms + 150 (1500) seeded samples of sizes 4..6 (5..7) over 27 atoms) the real parser, derivative construction and compile() build the DFA, and the solver proves: (a) scanner.pick_transition implements the table for every state and every character 0..255; (b) for ALL strings up to length 6 (thorough 8) over 0..255, table acceptance of every prefix equals membership in the expression's language (ref/regexsem.py) and the error state is dead; (c) scan()/Scanner.scan() produce exactly the maximal-munch, first-definition-wins tokenisation of all strings of length 4 (5).",
    note="String dimension fully symbolic; expression dimension enumerated / sampled by VERIF_SEED. regexsem is validated against re.fullmatch on concrete strings in every job (self-test, not deciding). The compositional step (table semantics vs. the real walker) is proven per table. A compile() that does not finish in 60 s is a violation. Outside: negated classes (rejected by ppci), code points > 255, nullable scanner tokens, codegen text output.",
    technique=TECH)

CLAIMED["C33"] = dict(
    level="model_checking", design="§4 C33",
    text="All paths of the real IntegerSet operations (union, intersection, difference, symmetric_difference and operator forms, contains, cardinality/len/empty/bool, __eq__, __iter__, constructor, merge_overlapping_intervals) for every choice of end points in [-2**31, 2**31). Operands are arbitrary canonical states with (ka,kb) ranges: all ka,kb <= 2 quick; up to (3,2),(2,3),(4,1),(1,4) thorough; the constructor takes arbitrary (overlapping, reversed, duplicated) raw arguments. Per path the solver proves, for a symbolic probe x, that membership in the result equals the boolean combination of memberships in the operands, that the result is canonical, that cardinality equals the inclusion-exclusion count, and that == holds exactly for equal denotations.",
    note="One inductive step from an arbitrary valid state: the representation invariant (canonical ranges) is assumed for operands and proved for every result. Trusted: z3 (exact integer translation of the linear bit-vector obligations; bit-blasting and cvc5 as fallback), ref/intset.py, the proxy engine. Outside: more ranges per operand, |end points| >= 2**31, __hash__/__repr__, iteration over ranges > 8 elements.",
    technique=TECH)
CLAIMED["C18"] = dict(
    level="model_checking", design="§4 C18",
    text="All paths of the real HexFile.add_region/check/save/load and HexLine.to_line/from_line for 1-3 non-overlapping regions with symbolic 32-bit base addresses, symbolic contents and start address (lengths up to 70/121 bytes straddling 30-byte chunks and 64 KiB lines, every insertion order). Per path z3 proves: merged regions equal the specification merge of the inputs; every saved record is well-formed (RECLEN, checksum) and the file structure is valid; the text decodes with an independent spec-derived reader (ref/ihex.py) to exactly the saved memory image; load(save(h)) reproduces regions and start address.",
    note="Trusted: z3, ref/ihex.py (Intel HEX spec rev. A), the proxy engine with its hex/struct/format shims (every path cross-checked against a shim-free concrete run). The file object is a line sink/source. Outside: more than 3 regions, longer regions, foreign files (types 02/03 input), overlap handling.",
    technique=TECH)
CLAIMED["C19"] = dict(
    level="model_checking", design="§4 C19",
    text="The real write_srecord/SRecord.to_line on a real ObjectFile for a family of code sizes (0..124, 255..257, 1000, 2000 fully symbolic; 4 KiB and 64 KiB+-eps with symbolic windows). Per size z3 proves: every record has correct count and ones'-complement checksum; an S0 header comes first and exactly one matching termination record is last; loading the data records with an independent spec-derived reader (ref/srec.py) yields exactly the code bytes at their offsets, nothing else written.",
    note="Trusted: z3, ref/srec.py (srec(5) / M68000 PRM app. C), the engine incl. the placeholder mechanism that carries symbolic characters through f-strings and print. For sizes >= 4095 only the first, last and around-64 KiB records are symbolic (fully symbolic 64 KiB images exhausted 12 GB). Outside: code >= 16 MiB, non-zero section addresses (write_srecord ignores Section.address).",
    technique=TECH)
CLAIMED["C12"] = dict(
    level="model_checking", design="§4 C12",
    text="All paths of the real link()/Linker/Image.data for 64 (thorough 600) object+layout shapes from a stated family (1-3 objects, 1-3 sections, lengths 0-9, symbols, absaddr32 sites, 0-2 memories with SECTION/ALIGN/DEFINESYMBOL/SECTIONDATA, partial and staged links). Within each shape every section byte, memory LOCATION/SIZE, symbol offset and up to two alignments in {1,2,4,8,16} are symbolic. z3 proves per path: byte preservation outside relocation sites, piece alignment, memory containment, disjointness, symbol = address + offset, directive semantics, and CompilerError exactly for duplicate, undefined or overfull inputs.",
    note="Trusted: z3, the proxy engine, the reference merge/location-counter model ref/linkspec.py (gABI sh_addralign, GNU ld SECTIONS/MEMORY semantics). Outside: shapes beyond the family, non-power-of-two alignments, layout text parsing, libraries, relocation field values beyond absaddr32 (C10/C11).",
    technique=TECH)
CLAIMED["C13"] = dict(
    level="model_checking", design="§4 C13",
    text="All paths of the real relaxed link (do_relaxations, _apply_relaxation_holes, can_shrink/do_shrink, BcImm11Relocation.apply) for 24 (thorough 96) rvc program shapes with SYMBOLIC memory bases, so every combination of shrink decisions is a path, compared with the same real link without relaxation. z3 proves per path: every jump, branch and address word decoded from the relaxed bytes with an ISA-manual decoder (ref/rvjump.py) reaches the same label, link register unchanged, other bytes unchanged, symbols/sections/relocation entries shifted by exactly the removed bytes, alignment preserved, relaxed link succeeds whenever the unrelaxed one is sound.",
    note="Trusted: z3, the proxy engine, ref/rvjump.py, the unrelaxed link as oracle. Five genuine relaxation defects (shrink decided on pre-relaxation distances: jump/branch grows out of range and wraps or fails; jal rd becomes c.jal = jal x1; following sections misaligned) are listed as known findings with regions derived from the unrelaxed link. Outside: emulated execution of the relaxed program, > 2 memories / 5 jumps, padding sizes other than the listed boundary fillers.",
    technique=TECH)

TECH_TV = "solver-checked translation validation: the real compiler stage runs concretely on each program of a stated finite family; its output is executed symbolically (ref semantics on z3 bit-vectors/arrays via the symx engine) next to the reference semantics of its input with the same symbolic arguments, memory and external results; z3 decides equality on every path; counterexamples replayed concretely"
CLAIMED["C37"] = dict(
    level="translation_validation", design="§4 C37",
    text="Translation validation of the real C3 front end (c3_to_ir: lexer, parser, type checker, coercions, constant evaluation, code generator) on a stated finite family of abstract C3 programs (every accepted pair of integer operand types x every operator, all conversions, short-circuit shapes, if/while/for/switch skeletons, calls, pointers/structs/arrays, constants and initialisers, seeded random programs; 284 quick / 3127 thorough incl. arm, riscv, msp430, avr). The IR ppci produces is executed by ref/irsem.py next to a reference evaluator of C3 (ref/c3sem.py); for ALL argument values and initial global contents the solver decides per path that the returned value and final globals are what C3 prescribes and that the compiled code stays defined whenever the source program is.",
    note="Trusted: z3, ref/irsem.py, ref/c3sem.py (fixed-width arithmetic in the operator's common type, no integer promotion as the language documents itself; agrees with gcc -fwrapv on ~7800 concrete points at build time), the engine. Loops bounded by construction; source UB is a premise. Outside: floats, strings, imports, pointer arithmetic/object layout, literals beyond int, constants of types other than int/byte (front-end crash: C28 territory), big-endian targets, the back ends.",
    technique=TECH_TV)

CLAIMED["C38"] = dict(
    level="model_checking", design="§4 C38",
    text="The real ConstantFolder pass (is_const/is_defined/eval_const/on_block, correct, cast, remainder), CJumpPass and RemoveAddZeroPass run on real IR modules whose constant operands are symbolic over the entire range of each of the 8 integer types: every IR operator (folded or not), every integer cast pair, chains (y+-c)+-c with a fully symbolic run-time operand, depth-2 constant trees in one- and two-block layouts. The solver proves on every path of the pass: the resulting IR denotes the reference value whenever the source operation is defined; every constant left in the IR lies in its type's range; listed operators stay unfolded only where undefined; no exception escapes.",
    note="Trusted: z3/cvc5, ref/irarith.py (semantics taken from ir2py, the C lowering and the back ends, which agree; shift count outside [0,width) and zero divisors are premises), the proxy engine (helpers correct/remainder run if-converted, every path re-validated concretely on the untouched code). Outside: trees deeper than 2, chains longer than 3, computed << counts, float/pointer constants.",
    technique=TECH)

CLAIMED["C02"] = dict(
    level="translation_validation", design="§4 C02/C03, §11",
    text="The REAL optimisation passes (each of the 9 passes alone, pass sequences, api.optimize levels) run on IR from two stated families: C functions through the real C front end (corpus/cprogs.py: arithmetic, loops, switch, globals, arrays, structs, pointer args, calls, tail calls, externals) and all CFG skeletons over <=3 blocks (thorough: + 80 sampled 4-block ones) in SSA form with phis, self loops and double edges (corpus/irprogs.py); for value-dependent passes the IR constants are SYMBOLIC so rewrites fork inside the real pass. The reference IR semantics (ref/irsem.py) of the module before and after are compared by z3 for ALL argument vectors, initial global contents, bytes behind pointer arguments and external-call results: same return value, same visible memory, same external call trace, under the premise that the original execution is defined.",
    note="Trusted: z3, ref/irsem.py (wrap-around, truncating / %, explicit memory regions with pointer provenance; accesses outside the object a pointer was derived from are UB = premise), the engine. Loops unwound to 140 (thorough 300) IR instructions, call depth 3: longer executions are cut and counted, never claimed. External calls: symbolic results plus a symbolic XOR-havoc of all memory an external can name (globals, buffers, escaped locals). Outside: floats, programs beyond the two families, 8 'heavy' corpus programs in the quick tier.",
    technique=TECH_TV)
CLAIMED["C03"] = dict(
    level="model_checking", design="§4 C02/C03, §11",
    text="Same runs as C02 (real passes on the C corpus and on all small CFG skeletons, constants symbolic for value-dependent passes): after every configuration and on every path the real verify_module accepts the result AND an independent structural re-check written from the property text passes (exactly one terminator at the end of each block, all blocks reachable, phi inputs == predecessors recomputed from terminators, operand types agree, definitions dominate uses by definition), and no exception other than CompilerError escapes the pass for ANY constant values (incl. zero divisors, negative or huge shift counts).",
    note="The structural part is decided per explored path; the solver content is the constant dimension (which rewrites fire, which exceptions are reachable) and path feasibility. Trusted: the re-check in props/_passes.py, the engine. Outside: modules beyond the two stated families; pass sequences other than the listed ones.",
    technique=TECH)

CLAIMED["C01"] = dict(
    level="translation_validation", design="§4 C01",
    text="For every program of a stated finite family of C programs (quick: 822 on x86_64 type sizes; thorough: ~16000 on x86_64/arm/msp430/riscv) the IR produced by the real c_to_ir is proven equal to an independent ISO-C11 reference semantics (ref/csem_prog.py): same return value, final global / pointed-to memory and external call trace, on every execution path, for ALL argument values, initial memory bytes and external results for which the C program has defined behaviour. The family covers every binary/unary operator and conversion over all 11 integer types (all type pairs in thorough), ?:, sampled depth-2/3 expressions and statement templates: control flow, switch, compound assignment, ++/--, arrays, structs, pointers, calls, externals.",
    note="Translation validation per program, not a proof about the front end: the program dimension is a finite template family (depth <= 3, loops masked to <= 3-4 iterations, 24-iteration / 400-instruction bound with zero cut paths); the value dimension is complete and decided by z3. The C oracle is validated against gcc -fsanitize=undefined on 2273 concrete points at build time (LP64). Implementation-defined choices (two's-complement wrap on signed narrowing, arithmetic >>, signed char, natural alignment) are assumptions. Outside: floats, bit-fields, unions, enums, goto, varargs, function pointers, string literals, constant-expression initialisers (C27), big-endian targets, avr.",
    technique=TECH_TV)
CLAIMED["C36"] = dict(
    level="translation_validation", design="§4 C36",
    text="The REAL Python front end (python_to_ir) compiles every program of a stated family of type-annotated integer functions (149 enumerated shapes: + - * //, all comparisons, and/or, if/elif/else, while, for-over-range with break/continue/early return, nested loops, loop-variable uses, (augmented/tuple) assignment, calls between two functions; plus 110 / 1400 seeded random programs, nesting depth <= 2). The produced IR, executed by ref/irsem.py on symbolic 64-bit arguments, is compared with the SAME source executed by CPython itself on symbolic integer proxies: on every path and for all argument values the solver shows that the module is well-formed, the IR execution is defined and returns exactly what CPython returns, under the premise that every integer value stays within 64 bits.",
    note="Trusted: z3, ref/irsem.py, ref/pyoracle.py (operator routing, 64-bit premise, lazy range), the engine (every path re-executed concretely with real ints). Arguments range over all of i64 except parameters that influence loop trip counts or in-loop conditions ([-2,5] quick, [-3,6] thorough); unwinding 4000/8000 IR instructions (no cut paths). Outside: floats, str, constructs ppci rejects with CompilerError (%, unary minus, not, range step), paths on which CPython raises, back ends.",
    technique=TECH_TV)

CLAIMED["C24"] = dict(
    level="translation_validation", design="§4 C24",
    text="Translation validation of the Python backend on the integer and pointer subset: for every module of the stated families the real ir_to_python output is exec()-ed on symbolic proxies next to ref/irsem.py with the same symbolic arguments, initial global / pointed-to memory and external call results. The solver proves, under the premise that the source execution is defined, that on every path there is no exception, the return value is equal and canonical for its type, every byte of every global and caller buffer is equal, and the external call trace is equal. Families: every Binop and Unop operator at every integer width; all 81 casts over {i8..u64, ptr}; typed loads/stores at symbolic offsets incl. aliasing pairs; phi/CFG templates; 55 C programs through the real front end, unoptimised and optimised.",
    note="Floating point is outside: the property's clause that float-to-integer conversion truncates toward zero is NOT covered (no symbolic float domain; by reading, ir2py uses int(round(x))). Also outside: blob loads/stores, CopyBlob, JumpTable, indirect calls, external variables. Loops unwound to 140 (300) IR instructions; longer paths are cut and counted. Pointer width 32 bits; the reference is evaluated under the generated code's heap address map. Runtime helpers correct/idiv/irem are recompiled from the GENERATED source with pure ifs merged (symx.ifconv); every path is re-validated concretely on the untouched code.",
    technique=TECH_TV)

CLAIMED["C05"] = dict(
    level="translation_validation", design="§4 C05",
    text="RISC-V (rv32im, with and without rvc) and ARM A32. Per program of a stated family (C corpus, ABI/frame shapes, x op K with boundary constants around the immediate formats of both targets, every narrow IR operator and cast on i8..u32, frame sizes around 1/2/4 KiB) and optimisation level (quick: two levels for riscv, one for arm; thorough: 0, 2 and one of 1/s, riscv also with rvc) the real front end, optimizer, code generator and linker run concretely; the LINKED BYTES are executed symbolically on manual-derived ISA models (ref/rv32.py; ref/arm32.py with flags, literal pools and ppci's runtime helper) from the function entry with symbolic registers, flags and memory, next to the reference semantics of the IR that was compiled. The solver proves, per path and for all inputs: equal return value, final globals and buffers, external call trace, restored sp/fp/callee-saved registers and an untouched caller stack; back-end exceptions count as 'no code produced'.",
    note="RISC-V and ARM A32 only: Thumb, m68k, mips, x86_64 are unclaimed (no ISA model). Trusted: z3, ref/rv32.py and ref/arm32.py (validated under C08), ref/irsem.py + ref/irsem_u.py, the engine; every path cross-checks the z3 machine semantics against an integer implementation. Calling conventions are taken from ppci's own arch objects. Unwinding: 400 instructions (ARM: 40 inside the __sdiv loop); cut paths counted, not claimed. Known findings (region True per harness family): riscv locals beyond ~2 KiB not covered; ARM __udiv missing, REMU32 and narrow DIV/REM patterns missing, frame sizes that are not modified immediates, register allocator give-up, __sdiv helper unsigned, stack arguments never loaded. Outside: floats, 64-bit integers, struct-by-value arguments.",
    technique=TECH_TV)
CLAIMED["C22"] = dict(
    level="translation_validation", design="§4 C22",
    text="Translation validation of ppci's WebAssembly execution (integer subset) against a reference interpreter written from the Core Specification (ref/wasmsem.py, self-tested on 162 spec boundary points). For every module of the stated families (one function per integer instruction x type, comparison consumers, control-flow templates to nesting depth 3 with br/br_if/br_table/return and value-carrying blocks, locals/globals, loads/stores of every width at symbolic address + offset incl. the out-of-bounds boundary, direct/indirect/host calls, start function, re-translation of the same Module) both the real instantiate(target='python') pipeline (generated code + IrPy runtime + real runtime.py helpers on proxies) and the real wasm_to_ir output (on ref/irsem.py) are executed with symbolic arguments, globals and memory bytes; the solver decides equality of traps, results, globals, memory (symbolic probe address) and host-call trace on every path.",
    note="Integer subset only: no floats, no native-code target (needs real x86-64 execution), no wasmtime (the specification is the reference). Any exception on ppci's side counts as a trap. Known findings: linear memory is not bounds-checked (address wrap aliases other data), call_indirect performs no index/null/type check. Outside: memory.grow, bulk/table instructions, executions beyond 400 wasm / 1500 IR steps.",
    technique=TECH_TV)
CLAIMED["C23"] = dict(
    level="translation_validation", design="§4 C23",
    text="Translation validation of the real IR-to-WebAssembly compiler (IrToWasmCompiler, relooper) on C-front-end output at O0/O1/O2 (corpus + 26 extra programs) and on all 2-/3-block CFG skeletons plus 60 (thorough 600) sampled 4-block ones: the generated module is run by the wasm reference semantics next to the IR reference semantics on symbolic arguments and memory; result, global and buffer memory, external call trace, no-trap and termination are proven equal on every path under the IR-defined premise.",
    note="Modules the compiler rejects with an error (about a quarter of the corpus) are counted, not claimed. Only the low bits of the IR type in returned values are compared. Known findings: narrow (i8/i16) and u32 values are never normalised, the structure detector silently drops CFG edges for some skeletons (exact harness names listed). Outside: floats, function pointers.",
    technique=TECH_TV)

CLAIMED["C27"] = dict(
    level="model_checking", design="§4 C27",
    text="For the stated template families the whole real C front end (c_to_ir) is executed with every integer literal of a constant expression SYMBOLIC over the full range of its type, including the value-dependent typing of unsuffixed literals (literals enter through a harness-side wrapper around CSemantics.on_number / utils.cnum; everything downstream is the real code on proxies). Templates: constant expressions of depth 1 exhaustively (18 binary operators, 4 unary operators, casts, ?:) and depth 2 sampled by VERIF_SEED, written with full and with minimal parentheses, used as initialisers of globals, statics, array elements, struct members and bit-fields of all 10 integer types (each also with a full-range literal of its own width), as case labels, enumerators and array sizes; targets x86_64 (quick) + arm, msp430, or1k big endian (thorough). On every path z3 proves that the front end returns and that the emitted bytes / case constant / array size equal the C11 value converted to the destination type (ref/csem.py), whenever the expression is free of undefined behaviour.",
    note="Trusted: z3/cvc5, ref/csem.py (cross-checked against gcc on 6000 points at build time), the engine; every path is repeated with NO instrumentation (model values printed into the C text, unmodified c_to_ir). Float division of symbolic integers is modelled exactly (CPython's correctly rounded int/int followed by int()). Literals in shift counts <= 79, right factors of compound/64-bit products <= 65535. One known finding remains (no modular reduction of constant values: char g = 100+100; ends in struct.error). Outside: literal spelling, bit-field widths, designators, float and address constants, sizeof.",
    technique=TECH)
CLAIMED["C26"] = dict(
    level="model_checking", design="§4 C26",
    text="The #if / #elif half of the property: the real preprocessor (lexer, parse_expression, expression evaluation, conditional-inclusion state machine) processes directive templates whose integer literals carry SYMBOLIC values (unsuffixed 0..2**63-1, u-suffixed 0..2**64-1); expression shapes: depth 1 exhaustive over 18 binary operators, unary - ~ ! +, ?: with signed/unsigned leaves, observed through the branch taken and through comparisons against further symbolic literals; deeper trees sampled by VERIF_SEED. Per path z3 proves that the branch ppci keeps is the one C11 6.10.1 prescribes (intmax_t/uintmax_t arithmetic with unsigned contagion, ref/csem.py) and that no exception other than a diagnostic escapes.",
    note="PARTIAL CLAIM: macro expansion, stringification (#), token pasting (##), rescanning and hide sets are token-sequence rewriting with no value dimension - not encodable as solver obligations (the oracle would be gcc -E on concrete texts, i.e. enumeration of concrete runs); they stay outside and a change there (seeded change C26/B) is not detected by this check. Also outside: defined(), identifiers and character constants in #if, #ifdef/#ifndef. One known finding remains (no unsigned arithmetic: #if -1 < 0u is taken as true).",
    technique=TECH)
CLAIMED["C28"] = dict(
    level="model_checking", design="§4 C28",
    text="For the stated template families of C (constant expressions in initialisers, case labels, enumerators, array sizes; #if expressions; bit-field widths), C3 (constant declarations, array sizes/indices, global initialisers of all 10 integer types, function bodies per operand type, switch/case over every integer type) and textual IR (constants of every type, alloc / variable / blob sizes and alignments, folded constant operations, casts, literal hex data), every explored path of the real front end (C3 / IR: followed by verify_module and optimize level 2) for ALL integer literal values in the stated ranges ends normally or in the front end's diagnostic exception (CompilerError; TaskError for the C3 builder; IrParseException for the IR reader); any other exception (struct.error, KeyError, ZeroDivisionError, AssertionError, ValueError, NotImplementedError ...) is a violation with the literal values as the model.",
    note="PARTIAL CLAIM: the structural quantifier ('every syntactically valid input') is not encodable; shapes are enumerated templates (quick ~400 C3 + ~240 IR + the C families), literal values are symbolic and decided by the solver, every path is re-run concretely without instrumentation. Operands of products/quotients are range-limited (2^32, 2^16, 300). One known finding remains (struct.error for out-of-range constant values in the C front end, same root cause as the C27 one).",
    technique=TECH)

CLAIMED["C17"] = dict(
    level="model_checking", design="§11 (was planned as not applicable; built like C18/C19)",
    text="For every enumerated object shape (5 machines x86_64/arm/riscv/xtensa/microblaze, relocatable and executable, 0-3 sections, 0-2 images, 0-5 symbols local/global/func/object/undefined/absolute, 0-4 relocations, entry symbol or none) the real ppci.format.elf writer runs on SYMBOLIC values: all section bytes, section addresses, symbol values and sizes, relocation offsets and addends, image addresses (symbolic page number, stated in-page offsets). An independent reader written from the gABI / ELF-64 / AMD64 psABI specifications (ref/elfspec.py) reads the resulting symbolic file; on every path the solver proves that the file is well formed (header, tables, string offsets, sh_link/sh_info, locals first, segment congruence and order), that the reader sees exactly the object's sections, symbols, x86_64 RELA entries and entry point, and that for every virtual address (symbolic probe) each PT_LOAD segment holds exactly the byte of the linked memory image; ppci's own ELF reader on the same bytes agrees field by field.",
    note="'Independent tools' are represented by the specification-derived reader; GNU readelf validates THAT reader on ~40 concrete ppci/gcc/objcopy files in a self-test job and decides nothing about ppci. struct.Struct packing is replaced by the symx struct shim inside the header classes; every path is re-run concretely with the real struct/io. Names are concrete samples. Outside: acceptance by further third-party tools, DWARF/debug sections, ET_DYN, e_flags/sh_flags/p_flags details, relocatable files with relocations on non-x86 machines (ppci raises NotImplementedError; the check confirms that), relocation semantics (C10/C11), shapes beyond the stated sizes.",
    technique=TECH)

CLAIMED["C21"] = dict(
    level="model_checking", design="§11 (was planned as not applicable; the binary half is decidable)",
    text="PARTIAL CLAIM - binary half, value dimension. For every module shape of a stated finite family (8 shapes built with ppci's component API: types, imports, nested block/loop/if/br/br_if/br_table, locals, globals with init expressions, memories and tables with limits, data and element segments, exports, start; plus the modules ppci's C->IR->wasm path produces for corpus programs) and for ALL values of all numeric immediates (i32/i64 constants over their full ranges, every u32 index / memarg / limit field over [0, 2**32), data bytes): ppci's real binary writer emits exactly the encoding core-spec section 5 prescribes (section order, sizes, counts and body sizes track the LEB lengths; independent walker ref/wasmbin.py), the real reader returns the same module field by field, and re-writing reproduces the bytes. Over-long LEB128 encodings of immediates and of size/count fields (up to 5, or 10 for i64, bytes) are read with the same value, never mis-read.",
    note="Decided by z3 on the real reader, writer and leb128 code running on proxies, one path per combination of LEB lengths; per harness 1-2 immediates range over the whole type and the rest over one LEB-length class, random profiles vary all lengths together. OUTSIDE (stays unclaimed): the text half (to_string / text parser: values cross str(), float repr and a C regex tokenizer - a symbolic value cannot pass), comparison with a reference engine / reference assembler (not installed), float immediates, post-MVP encodings, module validation.",
    technique=TECH)

NOT_APPLICABLE = {
    "C04": "property is about native execution of whole gcc/ppci-compiled programs; no x86-64 semantics model is in reach and running binaries is enumeration of concrete runs, not solver-based checking",
    "C06": "dataflow property over uninterpreted instruction semantics: a checker would be tag propagation in which a solver decides nothing",
    "C09": "operand values cross str() and the assembler's regex lexer (C code): a symbolic value cannot pass, only concrete enumeration could",
    "C15": "structural identity of modules; constants cross str()/regex: no input dimension a solver could range over",
    "C16": "structural identity of modules through JSON; values pass through untouched: no input dimension for a solver",
    "C17": "oracle is an external ELF reader on concrete files; an SMT restatement would verify my own ELF parser rather than the property",
    "C21": "structure-driven round trip; the only value dimension (LEB immediates) is decided under C20; text form crosses a tokenizer; reference engine not installed",
    "C29": "quantifies over operator/type/pattern coverage of three back ends: structural enumeration without a value dimension",
    "C30": "quantifies over PYTHONHASHSEED, processes and compilation history: not expressible as solver variables over CPython's real sets",
    "C40": "needs gcc-compiled callers/callees executing natively on x86-64",
}

PENDING = "not yet encoded (framework under construction; see DESIGN.md §4 for the planned harness)"


def main():
    props = [json.loads(l) for l in open(os.path.join(ROOT, "properties.jsonl"))]
    checks = []
    na = []
    for p in props:
        pid = p["id"]
        if pid in CLAIMED:
            c = CLAIMED[pid]
            checks.append(dict(
                property_id=pid,
                quick_cmd=f"./check {pid} --tier quick",
                thorough_cmd=f"./check {pid} --tier thorough",
                evidence_file=f"/verif/evidence/{pid}.json",
                replay_cmd_template="./check --replay {path}",
                engine="symx",
                level_claimed=dict(category=c["level"], text=c["text"], design_ref=c["design"]),
                level_note=c["note"],
                technique=c["technique"]))
        else:
            na.append(dict(property_id=pid, reason=NOT_APPLICABLE.get(pid, PENDING)))
    m = dict(
        version=1,
        setup_cmd="python3-vt -c \"import z3; print('z3', z3.get_version_string())\" && test -x /usr/bin/cvc5",
        hooks=dict(guard="PPCI_VERIF",
                   enable="no source hooks: all instrumentation is injected from the harness side (module-global shims); checks import ppci from /repo's working tree",
                   baseline_off_cmd="cd /repo && /venv/bin/python -m pytest -ra -q -p no:cacheprovider --timeout=900 --continue-on-collection-errors",
                   source_commits=[], add_only=True),
        engines=[dict(name="symx", path="symx/", serves_properties=sorted(CLAIMED),
                      kind_free_text="proxy-object symbolic executor for Python over z3 bit-vectors (DFS by re-execution, interval-guarded widths), cvc5 fallback for hard obligations, concrete replay of every path and counterexample")],
        checks=checks,
        notes="Every claim is bounded (see evidence coverage.bounds / outside_claim). Exit 3 = harness error (never a verdict).",
        not_applicable=na)
    json.dump(m, open(os.path.join(ROOT, "MANIFEST.json"), "w"), indent=1)
    print("claimed:", sorted(CLAIMED), "n/a:", len(na))


main()
