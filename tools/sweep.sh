#!/bin/sh
# usage: tools/sweep.sh quick|thorough [ids...]   -- runs the registered checks one after another, prints id exit wall
TIER="${1:-quick}"; shift
cd "$(dirname "$0")/.."
IDS="$*"
[ -z "$IDS" ] && IDS=$(python3 -c "import json; print(' '.join(c['property_id'] for c in json.load(open('MANIFEST.json'))['checks']))")
for p in $IDS; do
  t0=$(date +%s)
  ./check $p --tier $TIER > sweep_$p.log 2>&1
  rc=$?
  t1=$(date +%s)
  echo "$p tier=$TIER exit=$rc wall=$((t1-t0))s $(grep -c '^VIOLATION' sweep_$p.log) violations $(grep -c '^INCONCLUSIVE' sweep_$p.log) inconclusive $(grep -c '^HARNESS-ERROR' sweep_$p.log) errors :: $(grep 'tier=' sweep_$p.log | tail -1 | cut -c1-160)"
done
